#!/bin/sh
cd "$(dirname "$0")" || exit 1
export GOFLAGS=-mod=mod GOPROXY=off
mkdir -p bin evidence
cd engine && go build -o ../bin/gosym .
