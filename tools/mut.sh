#!/bin/sh
# development helper: tools/mut.sh <property> <file-in-repo> <sed-expression> [extra gosym args]
# applies a one-line mutation to /repo, runs the quick check, reverts.
id=$1; f=$2; e=$3; shift 3
cd /repo && sed -i "$e" "$f" && git diff --stat | tail -1
if git diff --quiet; then echo "MUTATION DID NOT APPLY"; exit 2; fi
cd /verif && timeout 1200 ./bin/gosym check -id "$id" -tier quick "$@" 2>&1 | grep -v '^\[' | cut -c1-400 | tail -6
cd /repo && git checkout -- . && git status --short
