#!/usr/bin/env python3
"""Regenerates the generated tail of DESIGN.md (sections 12-13) from tools/claims.json,
harness/spec.json and seeded/*/meta.json. Everything before the marker line is hand written."""
import json, os, glob
root = os.path.dirname(os.path.dirname(os.path.abspath(__file__)))
MARK = "<!-- generated below: tools/gen_design.py -->"
design = open(os.path.join(root, "DESIGN.md")).read()
head = design.split(MARK)[0].rstrip() + "\n\n" + MARK + "\n\n"
claims = json.load(open(os.path.join(root, "tools/claims.json")))
spec = json.load(open(os.path.join(root, "harness/spec.json")))
out = []
out.append("## 12. Per-property state as built\n")
out.append("Generated from tools/claims.json and harness/spec.json (the same data MANIFEST.json and the evidence files are built from). "
           "Quick = `./check <id> quick`, thorough = `./check <id> thorough` (harness functions whose names end in `_Thorough` run only there). "
           "All checks: exit 0 held within the bounds; 1 + VIOLATION natively reproduced violation; 3 inconclusive (budget, solver unknown, unconfirmed counterexample, harness does not load) - never success.\n")
for pid in sorted(claims["claimed"]):
    c = claims["claimed"][pid]; sp = spec.get(pid, {})
    out.append(f"### {pid} - claimed\n")
    out.append(c["text"] + "\n")
    out.append("*Note.* " + c["note"] + "\n")
    if sp.get("groups"):
        out.append("*Harnesses.* " + "; ".join(f"`{g['pkg']}`: " + ", ".join("harness/" + f for f in g["files"]) for g in sp["groups"]) + "\n")
    if sp.get("bounds"):
        out.append("*Bounds.* " + " | ".join(sp["bounds"]) + "\n")
    if sp.get("assumptions"):
        out.append("*Assumptions.* " + " | ".join(sp["assumptions"]) + "\n")
    if sp.get("outside"):
        out.append("*Outside the claim.* " + " | ".join(sp["outside"]) + "\n")
out.append("### Not applicable\n")
for pid in sorted(claims["not_applicable"]):
    out.append(f"* **{pid}** {claims['not_applicable'][pid]}")
out.append("")
out.append("## 13. Seeded breaking changes (which check catches which change)\n")
out.append("Each change below was written by a fresh sub-agent that saw only the property text and its own scratch worktree (nothing from /verif); "
           "`tools/seedtest.sh` confirmed in the scratch worktree that the patch applies, the demonstration fails with it and passes without it, and the "
           "touched packages' existing tests still pass; then the patch was applied to /repo, the quick check run, and /repo restored. "
           "Files: seeded/<name>/{patch.diff, zz_seed_demo_test.go, notes.md, meta.json, check_quick*.log}. "
           "Entries named `<id>-...` are reversals of the `fix:` commits.\n")
out.append("| seeded change | property | needs to manifest | result |")
out.append("|---|---|---|---|")
for d in sorted(glob.glob(os.path.join(root, "seeded/*/meta.json"))):
    m = json.load(open(d)); name = os.path.basename(os.path.dirname(d))
    needs = m.get("needs_to_manifest") or m.get("needs") or ""
    res = m.get("check_result") or m.get("detected_by") or ""
    out.append(f"| {name} | {m.get('property','')} | {needs.replace('|','/')} | {res.replace('|','/')} |")
out.append("")
open(os.path.join(root, "DESIGN.md"), "w").write(head + "\n".join(out) + "\n")
print("DESIGN.md regenerated")
