#!/usr/bin/env python3
"""Generates /verif/MANIFEST.json from tools/claims.json (claimed checks + N/A reasons)."""
import json, os
root = os.path.dirname(os.path.dirname(os.path.abspath(__file__)))
claims = json.load(open(os.path.join(root, "tools", "claims.json")))
props = [json.loads(l) for l in open(os.path.join(root, "properties.jsonl"))]
ids = [p["id"] for p in props]
checks, na = [], []
for pid in ids:
    c = claims["claimed"].get(pid)
    if c:
        checks.append({
            "property_id": pid,
            "quick_cmd": f"./check {pid} quick",
            "thorough_cmd": f"./check {pid} thorough",
            "evidence_file": f"/verif/evidence/{pid}.json",
            "replay_cmd_template": "./check replay {path}",
            "engine": "gosym",
            "level_claimed": {
                "category": "model_checking",
                "text": c["text"],
                "design_ref": c.get("design_ref", "DESIGN.md §5 " + pid),
            },
            "level_note": c["note"],
            "technique": c.get("technique", "bounded symbolic execution of the real Go SSA (own interpreter) with every branch-feasibility and assertion query decided by z3; counterexamples replayed natively"),
        })
    else:
        na.append({"property_id": pid, "reason": claims["not_applicable"][pid]})
m = {
    "version": 1,
    "setup_cmd": "./setup.sh",
    "hooks": {
        "guard": "verif",
        "enable": "no source hooks: harnesses are injected in-package through go/packages and `go test -overlay` overlays; nothing is written under /repo",
        "baseline_off_cmd": "for m in $(cat /w/out/gomods.txt); do MF=$(cd /repo/$m && . /w/out/goenv.sh && gomodflag); (cd /repo/$m && go test $MF -json -vet=off -count=1 -timeout 25m ./...); done",
        "source_commits": claims.get("hook_commits", []),
        "add_only": True,
    },
    "engines": [{
        "name": "gosym",
        "path": "/verif/engine",
        "serves_properties": sorted(claims["claimed"].keys()),
        "kind_free_text": "symbolic interpreter for Go SSA (go/ssa built from /repo on every run) + z3 4.8.12 over SMT-LIB2 pipes; harnesses in /verif/harness are compiled in-package via overlay; native replay via go test -overlay",
    }],
    "checks": checks,
    "not_applicable": na,
    "notes": claims.get("notes", ""),
}
json.dump(m, open(os.path.join(root, "MANIFEST.json"), "w"), indent=1)
print("claimed", len(checks), "n/a", len(na))
