#!/usr/bin/env python3
# classify /verif/seeded/*/meta.json: caught as first written / caught after strengthening / undetected / fix reversals
import json,glob,os
first,after,missed,rev=[],[],[],[]
for d in sorted(glob.glob(os.path.join(os.path.dirname(__file__),'..','seeded','*',''))):
    n=os.path.basename(d.rstrip('/'))
    m=json.load(open(d+'meta.json'))
    r=m.get('check_result','').lower(); src=m.get('source','').lower()
    if 'reversal' in src or 'reverse of' in src or n in ('C16-pick-compacting','C23-newfile5-terminator','C23-prefix-alloc','C21-queue-slot-reuse'): rev.append(n)
    elif r.startswith('not detected') or 'undetected' in r: missed.append(n)
    elif 'missed' in r or 'caught after' in r: after.append(n)
    else: first.append(n)
print('sub-agent seeds',len(first)+len(after)+len(missed))
print('first',len(first),' '.join(first));print('after',len(after),' '.join(after));print('undetected',len(missed),' '.join(missed));print('reversals',len(rev),' '.join(rev))
