#!/bin/sh
# tools/seedtest.sh <property-id> <seed-name> [existing-test-args...]
# Confirms a sub-agent's seeded change in its scratch worktree (/tmp/seed/<name>/wt), runs the
# quick check against it applied to /repo, reverts, and files it under /verif/seeded/<name>/.
id=$1; name=$2; shift 2
S=/tmp/seed/$name; W=$S/wt; O=$S/out
export GOFLAGS=-mod=mod GOPROXY=off
pkg=$(cat $O/demo_pkg.txt | tr -d ' \n')
demo=$(ls $O/*_test.go | head -1)
cd $W && git checkout -q -- . && git clean -fdq
echo "== demo on unchanged code (expect PASS)"
cp $demo $W/$pkg/zz_seed_demo_test.go
go test -vet=off -count=1 -run 'Seed|seed|Demo' ./$pkg/ 2>&1 | tail -3
echo "== patch applies; demo with change (expect FAIL)"
git apply $O/patch.diff || { echo "PATCH DOES NOT APPLY"; exit 2; }
go test -vet=off -count=1 -run 'Seed|seed|Demo' ./$pkg/ 2>&1 | tail -4
echo "== existing tests with change (expect PASS)"
rm -f $W/$pkg/zz_seed_demo_test.go
if [ $# -gt 0 ]; then go test -vet=off -count=1 "$@" 2>&1 | tail -4; else go test -vet=off -count=1 ./$pkg/... 2>&1 | tail -4; fi
echo "== quick check against the change (run on the scratch worktree with the patch applied: -repo)"
cd /verif && (timeout 3000 ./bin/gosym check -id $id -tier quick -repo $W $SEED_ARGS 2>&1 | grep -v '^\[' | cut -c1-300 | tail -8) > $S/check.log; cat $S/check.log
cd $W && git checkout -q -- . && git clean -fdq
mkdir -p /verif/seeded/$name && cp $O/patch.diff /verif/seeded/$name/ && cp $demo /verif/seeded/$name/ && cp $O/notes.md /verif/seeded/$name/ 2>/dev/null; cp $S/check.log /verif/seeded/$name/check_quick.log
