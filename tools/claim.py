#!/usr/bin/env python3
"""tools/claim.py <id> <text-file>: first line(s) up to a line '---' = level text, rest = note. Moves id from not_applicable to claimed."""
import json, sys, os
root = os.path.dirname(os.path.dirname(os.path.abspath(__file__)))
pid, path = sys.argv[1], sys.argv[2]
raw = open(path).read()
text, note = raw.split("\n---\n", 1)
c = json.load(open(os.path.join(root, "tools/claims.json")))
c["claimed"][pid] = {"text": " ".join(text.split()), "note": " ".join(note.split())}
c["not_applicable"].pop(pid, None)
json.dump(c, open(os.path.join(root, "tools/claims.json"), "w"), indent=1)
os.system("python3 " + os.path.join(root, "tools/gen_manifest.py"))
