package main

// Synchronisation primitives. Sequential mode: plain state, blocking = engine
// error. Concurrent mode (sched != nil): cooperative threads with a symbolic
// scheduler, see sched_conc.go.

import (
	"fmt"
	"go/types"

	"golang.org/x/tools/go/ssa"
)

type mutexState struct {
	locked  bool
	readers int
}

func (m *Machine) mutexOf(p Value) *mutexState {
	cell, ok := p.(*Value)
	if !ok || cell == nil {
		panic(engineErr{"mutex operation on nil or non-cell pointer"})
	}
	if m.mutexes == nil {
		m.mutexes = map[*Value]*mutexState{}
	}
	st := m.mutexes[cell]
	if st == nil {
		st = &mutexState{}
		m.mutexes[cell] = st
	}
	return st
}

func (m *Machine) mutexLock(fr *frame, p Value, read bool) {
	st := m.mutexOf(p)
	for {
		m.visible(fr, "mutex.Lock")
		if read {
			if !st.locked {
				st.readers++
				return
			}
		} else if !st.locked && st.readers == 0 {
			st.locked = true
			return
		}
		m.block(fr, "mutex", func() bool {
			if read {
				return !st.locked
			}
			return !st.locked && st.readers == 0
		})
	}
}

func (m *Machine) mutexTryLock(fr *frame, p Value) bool {
	st := m.mutexOf(p)
	m.visible(fr, "mutex.TryLock")
	if !st.locked && st.readers == 0 {
		st.locked = true
		return true
	}
	return false
}

func (m *Machine) mutexUnlock(fr *frame, p Value, read bool) {
	st := m.mutexOf(p)
	m.visible(fr, "mutex.Unlock")
	if read {
		if st.readers == 0 {
			m.rtPanic(fr, "sync: RUnlock of unlocked RWMutex")
		}
		st.readers--
		return
	}
	if !st.locked {
		m.rtPanic(fr, "sync: unlock of unlocked mutex")
	}
	st.locked = false
}

type wgState struct{ n int64 }

func (m *Machine) wgOf(p Value) *wgState {
	cell := p.(*Value)
	if m.wgs == nil {
		m.wgs = map[*Value]*wgState{}
	}
	st := m.wgs[cell]
	if st == nil {
		st = &wgState{}
		m.wgs[cell] = st
	}
	return st
}

func (m *Machine) wgAdd(fr *frame, p Value, d *Term) {
	st := m.wgOf(p)
	m.visible(fr, "WaitGroup.Add")
	st.n += m.concreteInt(fr, d, "WaitGroup delta")
	if st.n < 0 {
		m.rtPanic(fr, "sync: negative WaitGroup counter")
	}
}

func (m *Machine) wgWait(fr *frame, p Value) {
	st := m.wgOf(p)
	for {
		m.visible(fr, "WaitGroup.Wait")
		if st.n == 0 {
			return
		}
		m.block(fr, "waitgroup", func() bool { return st.n == 0 })
	}
}

type condState struct {
	waiters []*thread
}

func (m *Machine) condOf(p Value) *condState {
	cell := p.(*Value)
	if m.conds == nil {
		m.conds = map[*Value]*condState{}
	}
	st := m.conds[cell]
	if st == nil {
		st = &condState{}
		m.conds[cell] = st
	}
	return st
}

// condL returns the Locker stored in a sync.Cond (field "L").
func (m *Machine) condL(fr *frame, p Value) Iface {
	st := (*p.(*Value)).(Struct)
	ct := mustDeref(fr.fn.Signature.Recv().Type()).Underlying().(*types.Struct)
	for i := 0; i < ct.NumFields(); i++ {
		if ct.Field(i).Name() == "L" {
			return st[i].(Iface)
		}
	}
	panic(engineErr{"sync.Cond without L"})
}

func (m *Machine) lockerCall(fr *frame, l Iface, name string) {
	fn := m.methodByName(l.t, name)
	if fn == nil {
		panic(engineErr{"Locker without " + name})
	}
	m.call(fr, 0, fn, []Value{l.v})
}

func (m *Machine) condWait(fr *frame, p Value) {
	if m.sched == nil {
		panic(engineErr{"sync.Cond.Wait in sequential mode would block forever"})
	}
	st := m.condOf(p)
	l := m.condL(fr, p)
	me := m.sched.cur
	st.waiters = append(st.waiters, me)
	me.signalled = false
	m.lockerCall(fr, l, "Unlock")
	for !me.signalled {
		m.block(fr, "cond", func() bool { return me.signalled })
	}
	m.lockerCall(fr, l, "Lock")
}

func (m *Machine) condSignal(fr *frame, p Value, all bool) {
	st := m.condOf(p)
	m.visible(fr, "Cond.Signal")
	if len(st.waiters) == 0 {
		return
	}
	if all {
		for _, w := range st.waiters {
			w.signalled = true
		}
		st.waiters = nil
		return
	}
	st.waiters[0].signalled = true
	st.waiters = st.waiters[1:]
}

// ---------- channels ----------

func (m *Machine) chanSend(fr *frame, c Value, v Value) {
	ch := c.(*Chan)
	if ch == nil {
		m.block(fr, "send on nil chan", func() bool { return false })
	}
	for {
		m.visible(fr, "chan.send")
		if ch.closed {
			m.rtPanic(fr, "send on closed channel")
		}
		if len(ch.buf) < ch.cap {
			ch.buf = append(ch.buf, v)
			return
		}
		if ch.cap == 0 && ch.recvWaiting > 0 && len(ch.buf) == 0 {
			// rendezvous: hand the value to a waiting receiver
			ch.buf = append(ch.buf, v)
			return
		}
		m.block(fr, "chan send", func() bool {
			return ch.closed || len(ch.buf) < ch.cap || (ch.cap == 0 && ch.recvWaiting > 0 && len(ch.buf) == 0)
		})
	}
}

func (m *Machine) chanRecv(fr *frame, c Value, commaOk bool, T types.Type) Value {
	ch := c.(*Chan)
	if ch == nil {
		m.block(fr, "recv on nil chan", func() bool { return false })
	}
	elemT := T
	if commaOk {
		elemT = T.(*types.Tuple).At(0).Type()
	}
	for {
		m.visible(fr, "chan.recv")
		if len(ch.buf) > 0 {
			v := ch.buf[0]
			ch.buf = ch.buf[1:]
			if commaOk {
				return Tuple{v, tTrue}
			}
			return v
		}
		if ch.closed {
			z := m.zero(elemT)
			if commaOk {
				return Tuple{z, tFalse}
			}
			return z
		}
		ch.recvWaiting++
		m.block(fr, "chan recv", func() bool { return len(ch.buf) > 0 || ch.closed })
		ch.recvWaiting--
	}
}

func (m *Machine) chanClose(fr *frame, c Value) {
	ch := c.(*Chan)
	m.visible(fr, "chan.close")
	if ch == nil {
		m.rtPanic(fr, "close of nil channel")
	}
	if ch.closed {
		m.rtPanic(fr, "close of closed channel")
	}
	ch.closed = true
}

func (m *Machine) selectOp(fr *frame, instr *ssa.Select) Value {
	ready := func() []int {
		var r []int
		for i, st := range instr.States {
			ch, _ := fr.get(st.Chan).(*Chan)
			if ch == nil {
				continue
			}
			if st.Dir == types.RecvOnly {
				if len(ch.buf) > 0 || ch.closed {
					r = append(r, i)
				}
			} else {
				if ch.closed || len(ch.buf) < ch.cap || (ch.cap == 0 && ch.recvWaiting > 0 && len(ch.buf) == 0) {
					r = append(r, i)
				}
			}
		}
		return r
	}
	var chosen int
	for {
		m.visible(fr, "select")
		r := ready()
		if len(r) > 0 {
			chosen = r[0]
			if len(r) > 1 {
				chosen = r[m.chooseAmong(fr, len(r), "select")]
			}
			break
		}
		if !instr.Blocking {
			chosen = -1
			break
		}
		for _, st := range instr.States {
			if ch, _ := fr.get(st.Chan).(*Chan); ch != nil && st.Dir == types.RecvOnly {
				ch.recvWaiting++
			}
		}
		m.block(fr, "select", func() bool { return len(ready()) > 0 })
		for _, st := range instr.States {
			if ch, _ := fr.get(st.Chan).(*Chan); ch != nil && st.Dir == types.RecvOnly {
				ch.recvWaiting--
			}
		}
	}
	res := Tuple{Const(64, uint64(int64(chosen))), tFalse}
	for i, st := range instr.States {
		if st.Dir != types.RecvOnly {
			if i == chosen {
				ch := fr.get(st.Chan).(*Chan)
				if ch.closed {
					m.rtPanic(fr, "send on closed channel")
				}
				ch.buf = append(ch.buf, fr.get(st.Send))
			}
			continue
		}
		elemT := st.Chan.Type().Underlying().(*types.Chan).Elem()
		var v Value
		if i == chosen {
			ch := fr.get(st.Chan).(*Chan)
			if len(ch.buf) > 0 {
				v = ch.buf[0]
				ch.buf = ch.buf[1:]
				res[1] = tTrue
			} else {
				v = m.zero(elemT)
			}
		} else {
			v = m.zero(elemT)
		}
		res = append(res, v)
	}
	return res
}

// chooseAmong picks one of k alternatives as a symbolic (forked) choice.
func (m *Machine) chooseAmong(fr *frame, k int, what string) int {
	m.nchoice++
	v := m.newInput(fmt.Sprintf("sched.%s#%d", what, m.nchoice), 64)
	m.assume(m.tc.Cmp(OpULt, v, Const(64, uint64(k))))
	for i := 0; i < k-1; i++ {
		if m.branch(m.tc.Eq(v, Const(64, uint64(i)))) {
			return i
		}
	}
	return k - 1
}
