package main

// sameNarrowBase: a = base + c1, b = base + c2 where base is the zero
// extension of a value at most 32 bits wide (so base + c cannot wrap in 64
// bits for small c).
func sameNarrowBase(a, b *Term) (c1, c2 int64, ok bool) {
	ab, ao := splitOff(a)
	bb, bo := splitOff(b)
	if ab != bb || ab.op != OpZExt || ab.w != 64 || ab.args[0].w > 32 {
		return 0, 0, false
	}
	c1, c2 = int64(ao), int64(bo)
	const lim = 1 << 40
	if c1 > lim || c1 < -lim || c2 > lim || c2 < -lim {
		return 0, 0, false
	}
	return c1, c2, true
}
