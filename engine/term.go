package main

// Hash-consed SMT term DAG with constant folding and peephole simplification.
// Sorts: Bool (w==0), bit-vector of width w (1..128), byte array (w==-1:
// (Array (_ BitVec 64) (_ BitVec 8))).

import (
	"fmt"
	"math/bits"
	"strings"
)

type Op uint8

const (
	OpConst Op = iota
	OpVar
	OpAdd
	OpSub
	OpMul
	OpUDiv
	OpSDiv
	OpURem
	OpSRem
	OpAnd
	OpOr
	OpXor
	OpShl
	OpLShr
	OpAShr
	OpNot // bvnot
	OpNeg
	OpConcat
	OpExtract // val = hi<<8 | lo
	OpZExt
	OpSExt
	OpEq
	OpULt
	OpULe
	OpSLt
	OpSLe
	OpBAnd
	OpBOr
	OpBNot
	OpIte
	OpSelect
	OpStore
	OpArrZero // constant zero array
	OpUF      // uninterpreted function: name, args; result width w
)

var opNames = map[Op]string{
	OpAdd: "bvadd", OpSub: "bvsub", OpMul: "bvmul", OpUDiv: "bvudiv", OpSDiv: "bvsdiv",
	OpURem: "bvurem", OpSRem: "bvsrem", OpAnd: "bvand", OpOr: "bvor", OpXor: "bvxor",
	OpShl: "bvshl", OpLShr: "bvlshr", OpAShr: "bvashr", OpNot: "bvnot", OpNeg: "bvneg",
	OpConcat: "concat", OpEq: "=", OpULt: "bvult", OpULe: "bvule", OpSLt: "bvslt", OpSLe: "bvsle",
	OpBAnd: "and", OpBOr: "or", OpBNot: "not", OpIte: "ite", OpSelect: "select", OpStore: "store",
}

const ArrW = -1

type Term struct {
	op   Op
	w    int // 0 bool, >0 bitvector width, -1 array
	val  uint64
	name string
	args []*Term
	id   int // 0 for constants (not hash-consed)
}

func (t *Term) IsConst() bool { return t.op == OpConst }
func (t *Term) IsBool() bool  { return t.w == 0 }
func (t *Term) IsTrue() bool  { return t.op == OpConst && t.w == 0 && t.val == 1 }
func (t *Term) IsFalse() bool { return t.op == OpConst && t.w == 0 && t.val == 0 }

type termKey struct {
	op         Op
	w          int
	val        uint64
	name       string
	a0, a1, a2 int
	rest       string
}

type TermCtx struct {
	tab    map[termKey]*Term
	nextID int
	vars   []*Term // declared variables in order
	ufs    map[string]string
	uflist []string // declaration lines for UFs, in order
}

func NewTermCtx() *TermCtx {
	return &TermCtx{tab: map[termKey]*Term{}, nextID: 1, ufs: map[string]string{}}
}

var (
	tTrue  = &Term{op: OpConst, w: 0, val: 1}
	tFalse = &Term{op: OpConst, w: 0, val: 0}
)

func mask(w int) uint64 {
	if w >= 64 {
		return ^uint64(0)
	}
	return (uint64(1) << uint(w)) - 1
}

var smallConsts [65][256]*Term

func init() {
	for w := 1; w <= 64; w++ {
		for v := 0; v < 256; v++ {
			if w < 8 && v >= 1<<uint(w) {
				continue
			}
			smallConsts[w][v] = &Term{op: OpConst, w: w, val: uint64(v)}
		}
	}
}

func Const(w int, v uint64) *Term {
	if w == 0 {
		if v != 0 {
			return tTrue
		}
		return tFalse
	}
	if w > 64 {
		panic("Const: width > 64")
	}
	v &= mask(w)
	if v < 256 {
		return smallConsts[w][v]
	}
	return &Term{op: OpConst, w: w, val: v}
}

func BoolT(b bool) *Term {
	if b {
		return tTrue
	}
	return tFalse
}

func aid(t *Term) int {
	if t.op == OpConst {
		// encode constants distinctly: negative space keyed by value hash
		return -1
	}
	return t.id
}

func (c *TermCtx) mk(op Op, w int, val uint64, name string, args ...*Term) *Term {
	k := termKey{op: op, w: w, val: val, name: name}
	var sb strings.Builder
	hasConst := false
	for i, a := range args {
		id := aid(a)
		if id == -1 {
			hasConst = true
		}
		switch i {
		case 0:
			k.a0 = id
		case 1:
			k.a1 = id
		case 2:
			k.a2 = id
		}
		if i >= 3 {
			fmt.Fprintf(&sb, "%d,", id)
		}
	}
	if hasConst {
		for i, a := range args {
			if a.op == OpConst {
				fmt.Fprintf(&sb, "c%d:%d:%d;", i, a.w, a.val)
			}
		}
	}
	k.rest = sb.String()
	if t, ok := c.tab[k]; ok {
		return t
	}
	t := &Term{op: op, w: w, val: val, name: name, args: append([]*Term(nil), args...), id: c.nextID}
	c.nextID++
	c.tab[k] = t
	return t
}

func (c *TermCtx) Var(name string, w int) *Term {
	k := termKey{op: OpVar, w: w, name: name}
	if t, ok := c.tab[k]; ok {
		return t
	}
	t := &Term{op: OpVar, w: w, name: name, id: c.nextID}
	c.nextID++
	c.tab[k] = t
	c.vars = append(c.vars, t)
	return t
}

func (c *TermCtx) ArrZero() *Term { return c.mk(OpArrZero, ArrW, 0, "") }

func (c *TermCtx) UF(name string, w int, args ...*Term) *Term {
	if _, ok := c.ufs[name]; !ok {
		var sb strings.Builder
		fmt.Fprintf(&sb, "(declare-fun %s (", name)
		for _, a := range args {
			sb.WriteString(sortOf(a.w) + " ")
		}
		fmt.Fprintf(&sb, ") %s)", sortOf(w))
		c.ufs[name] = sb.String()
		c.uflist = append(c.uflist, sb.String())
	}
	return c.mk(OpUF, w, 0, name, args...)
}

func sortOf(w int) string {
	switch {
	case w == 0:
		return "Bool"
	case w == ArrW:
		return "(Array (_ BitVec 64) (_ BitVec 8))"
	}
	return fmt.Sprintf("(_ BitVec %d)", w)
}

func sx(v uint64, w int) int64 {
	if w >= 64 {
		return int64(v)
	}
	sh := uint(64 - w)
	return int64(v<<sh) >> sh
}

// ---------- bit-vector constructors ----------

func (c *TermCtx) Bin(op Op, a, b *Term) *Term {
	if a.w != b.w {
		panic(fmt.Sprintf("Bin %s: width mismatch %d vs %d", opNames[op], a.w, b.w))
	}
	w := a.w
	if a.op == OpConst && b.op == OpConst && w <= 64 {
		x, y := a.val, b.val
		var r uint64
		switch op {
		case OpAdd:
			r = x + y
		case OpSub:
			r = x - y
		case OpMul:
			r = x * y
		case OpUDiv:
			if y == 0 {
				r = mask(w)
			} else {
				r = x / y
			}
		case OpURem:
			if y == 0 {
				r = x
			} else {
				r = x % y
			}
		case OpSDiv:
			sx_, sy := sx(x, w), sx(y, w)
			if sy == 0 {
				if sx_ < 0 {
					r = 1
				} else {
					r = mask(w)
				}
			} else if sy == -1 {
				r = uint64(-sx_)
			} else {
				r = uint64(sx_ / sy)
			}
		case OpSRem:
			sx_, sy := sx(x, w), sx(y, w)
			if sy == 0 {
				r = x
			} else if sy == -1 {
				r = 0
			} else {
				r = uint64(sx_ % sy)
			}
		case OpAnd:
			r = x & y
		case OpOr:
			r = x | y
		case OpXor:
			r = x ^ y
		case OpShl:
			if y >= uint64(w) {
				r = 0
			} else {
				r = x << y
			}
		case OpLShr:
			if y >= uint64(w) {
				r = 0
			} else {
				r = x >> y
			}
		case OpAShr:
			s := sx(x, w)
			if y >= uint64(w) {
				if s < 0 {
					r = mask(w)
				} else {
					r = 0
				}
			} else {
				r = uint64(s >> y)
			}
		default:
			panic("Bin: bad op")
		}
		return Const(w, r)
	}
	// identities
	switch op {
	case OpAdd:
		if a.op == OpConst {
			a, b = b, a
		}
		if b.op == OpConst && b.val == 0 {
			return a
		}
		// (x + c1) + c2
		if b.op == OpConst && a.op == OpAdd && a.args[1].op == OpConst && w <= 64 {
			return c.Bin(OpAdd, a.args[0], Const(w, a.args[1].val+b.val))
		}
	case OpSub:
		if b.op == OpConst && b.val == 0 {
			return a
		}
		if a == b {
			return Const64w(w, 0)
		}
		if b.op == OpConst && w <= 64 {
			return c.Bin(OpAdd, a, Const(w, -b.val))
		}
		// (x + c) - x  => c
		if a.op == OpAdd && a.args[0] == b {
			return a.args[1]
		}
	case OpMul:
		if a.op == OpConst {
			a, b = b, a
		}
		if b.op == OpConst {
			if b.val == 0 {
				return b
			}
			if b.val == 1 {
				return a
			}
		}
	case OpAnd:
		if a.op == OpConst {
			a, b = b, a
		}
		if b.op == OpConst {
			if b.val == 0 {
				return b
			}
			if w <= 64 && b.val == mask(w) {
				return a
			}
			// and of zext(x) with mask covering x
			if a.op == OpZExt && a.args[0].w <= 64 && b.val&mask(a.args[0].w) == mask(a.args[0].w) {
				return a
			}
		}
		if a == b {
			return a
		}
	case OpOr:
		if a.op == OpConst {
			a, b = b, a
		}
		if b.op == OpConst {
			if b.val == 0 {
				return a
			}
			if w <= 64 && b.val == mask(w) {
				return b
			}
		}
		if a == b {
			return a
		}
	case OpXor:
		if a.op == OpConst {
			a, b = b, a
		}
		if b.op == OpConst && b.val == 0 {
			return a
		}
		if a == b {
			return Const64w(w, 0)
		}
	case OpShl, OpLShr, OpAShr:
		if b.op == OpConst && b.val == 0 {
			return a
		}
		if a.op == OpConst && a.val == 0 {
			return a
		}
		if b.op == OpConst && b.val >= uint64(w) && op != OpAShr {
			return Const64w(w, 0)
		}
		// shl(zext(x), k) with k multiple etc. left to the solver
		if op == OpLShr && b.op == OpConst && a.op == OpZExt && b.val >= uint64(a.args[0].w) {
			return Const64w(w, 0)
		}
	case OpUDiv:
		if b.op == OpConst && b.val == 1 {
			return a
		}
	case OpURem:
		if b.op == OpConst && b.val == 1 {
			return Const64w(w, 0)
		}
	}
	return c.mk(op, w, 0, "", a, b)
}

// Const64w makes a constant of any width (wide zero allowed).
func Const64w(w int, v uint64) *Term {
	if w <= 64 {
		return Const(w, v)
	}
	// wide constants are represented as zext of a 64-bit constant; only used for zero/small
	return &Term{op: OpConst, w: w, val: v}
}

func (c *TermCtx) Not(a *Term) *Term {
	if a.op == OpConst {
		return Const(a.w, ^a.val)
	}
	if a.op == OpNot {
		return a.args[0]
	}
	return c.mk(OpNot, a.w, 0, "", a)
}

func (c *TermCtx) Neg(a *Term) *Term {
	if a.op == OpConst {
		return Const(a.w, -a.val)
	}
	return c.mk(OpNeg, a.w, 0, "", a)
}

func (c *TermCtx) Extract(a *Term, hi, lo int) *Term {
	if hi < lo || hi >= a.w {
		panic(fmt.Sprintf("Extract: bad range %d:%d of width %d", hi, lo, a.w))
	}
	w := hi - lo + 1
	if w == a.w {
		return a
	}
	if a.op == OpConst && a.w <= 64 {
		return Const(w, a.val>>uint(lo))
	}
	if a.op == OpConst && hi < 64 {
		return Const(w, a.val>>uint(lo))
	}
	switch a.op {
	case OpExtract:
		ilo := int(a.val & 0xff)
		return c.Extract(a.args[0], hi+ilo, lo+ilo)
	case OpZExt:
		x := a.args[0]
		if hi < x.w {
			return c.Extract(x, hi, lo)
		}
		if lo >= x.w {
			return Const64w(w, 0)
		}
		return c.ZExt(c.Extract(x, x.w-1, lo), w)
	case OpSExt:
		x := a.args[0]
		if hi < x.w {
			return c.Extract(x, hi, lo)
		}
	case OpConcat:
		h, l := a.args[0], a.args[1]
		if hi < l.w {
			return c.Extract(l, hi, lo)
		}
		if lo >= l.w {
			return c.Extract(h, hi-l.w, lo-l.w)
		}
	case OpAnd, OpOr, OpXor:
		// push extract through bitwise ops when one side is constant (common in byte packing)
		if a.args[1].op == OpConst || a.args[0].op == OpConst {
			return c.Bin(a.op, c.Extract(a.args[0], hi, lo), c.Extract(a.args[1], hi, lo))
		}
		if w <= 8 {
			return c.Bin(a.op, c.Extract(a.args[0], hi, lo), c.Extract(a.args[1], hi, lo))
		}
	case OpShl:
		if a.args[1].op == OpConst {
			k := int(a.args[1].val)
			if lo >= k {
				return c.Extract(a.args[0], hi-k, lo-k)
			}
			if hi < k {
				return Const64w(w, 0)
			}
		}
	case OpLShr:
		if a.args[1].op == OpConst {
			k := int(a.args[1].val)
			if hi+k < a.w {
				return c.Extract(a.args[0], hi+k, lo+k)
			}
			if lo+k >= a.w {
				return Const64w(w, 0)
			}
		}
	case OpIte:
		if a.args[1].op == OpConst && a.args[2].op == OpConst {
			return c.Ite(a.args[0], c.Extract(a.args[1], hi, lo), c.Extract(a.args[2], hi, lo))
		}
	case OpAdd:
		// truncation distributes over addition; keep index arithmetic in "x + const" form
		if lo == 0 && a.args[1].op == OpConst && a.w <= 64 {
			return c.Bin(OpAdd, c.Extract(a.args[0], hi, 0), Const(w, a.args[1].val))
		}
	}
	return c.mk(OpExtract, w, uint64(hi)<<8|uint64(lo), "", a)
}

func (c *TermCtx) ZExt(a *Term, w int) *Term {
	if w == a.w {
		return a
	}
	if w < a.w {
		panic("ZExt: narrowing")
	}
	if a.op == OpConst && a.w <= 64 {
		return Const64w(w, a.val)
	}
	if a.op == OpZExt {
		return c.ZExt(a.args[0], w)
	}
	if y, cs, ok := smallAdd(a); ok && w <= 64 && a.w < 64 {
		lo, hi := cs, int64(mask(y.w))+cs
		if lo >= 0 && hi <= int64(mask(a.w)) {
			return c.Bin(OpAdd, c.ZExt(y, w), Const(w, uint64(cs)))
		}
	}
	return c.mk(OpZExt, w, 0, "", a)
}

// smallAdd recognises zext(y) + const (y at most 32 bits wide, |const| small).
func smallAdd(a *Term) (y *Term, cs int64, ok bool) {
	if a.op != OpAdd || a.w > 64 || a.args[1].op != OpConst || a.args[0].op != OpZExt {
		return nil, 0, false
	}
	y = a.args[0].args[0]
	if y.w > 32 || y.w >= a.w {
		return nil, 0, false
	}
	cs = sx(a.args[1].val, a.w)
	if cs > 1<<40 || cs < -(1<<40) {
		return nil, 0, false
	}
	return y, cs, true
}

func (c *TermCtx) SExt(a *Term, w int) *Term {
	if w == a.w {
		return a
	}
	if w < a.w {
		panic("SExt: narrowing")
	}
	if a.op == OpConst && w <= 64 {
		return Const(w, uint64(sx(a.val, a.w)))
	}
	if a.op == OpZExt && a.args[0].w < a.w {
		// sign bit known zero
		return c.ZExt(a.args[0], w)
	}
	if y, cs, ok := smallAdd(a); ok && w <= 64 {
		// sext(zext(y)+c) == zext(y)+c when the narrow addition cannot overflow
		lo, hi := cs, int64(mask(y.w))+cs
		lim := int64(1) << uint(a.w-1)
		if lo >= -lim && hi <= lim-1 {
			return c.Bin(OpAdd, c.ZExt(y, w), Const(w, uint64(cs)))
		}
	}
	return c.mk(OpSExt, w, 0, "", a)
}

func (c *TermCtx) Concat(h, l *Term) *Term {
	w := h.w + l.w
	if h.op == OpConst && l.op == OpConst && w <= 64 {
		return Const(w, h.val<<uint(l.w)|l.val)
	}
	if h.op == OpConst && h.val == 0 {
		return c.ZExt(l, w)
	}
	if h.op == OpExtract && l.op == OpExtract && h.args[0] == l.args[0] {
		hlo := int(h.val & 0xff)
		lhi := int(l.val >> 8)
		if hlo == lhi+1 {
			return c.Extract(h.args[0], int(h.val>>8), int(l.val&0xff))
		}
	}
	return c.mk(OpConcat, w, 0, "", h, l)
}

// ---------- predicates ----------

func (c *TermCtx) Eq(a, b *Term) *Term {
	if a.w != b.w {
		panic(fmt.Sprintf("Eq: sort mismatch %d vs %d", a.w, b.w))
	}
	if a == b {
		return tTrue
	}
	if a.op == OpConst && b.op == OpConst {
		return BoolT(a.val == b.val && a.w == b.w)
	}
	if a.w == 0 {
		// boolean equality
		if a.op == OpConst {
			a, b = b, a
		}
		if b.op == OpConst {
			if b.val == 1 {
				return a
			}
			return c.BNot(a)
		}
		return c.mk(OpEq, 0, 0, "", a, b)
	}
	if a.op == OpConst {
		a, b = b, a
	}
	if b.op == OpConst {
		switch a.op {
		case OpZExt:
			x := a.args[0]
			if x.w <= 64 {
				if b.w <= 64 && b.val&^mask(x.w) != 0 {
					return tFalse
				}
				return c.Eq(x, Const(x.w, b.val))
			}
		case OpIte:
			if r := c.pushCmp(OpEq, a, b, false, 6); r != nil {
				return r
			}
		case OpAdd:
			if a.args[1].op == OpConst && a.w <= 64 {
				return c.Eq(a.args[0], Const(a.w, b.val-a.args[1].val))
			}
		case OpConcat:
			h, l := a.args[0], a.args[1]
			if a.w <= 64 {
				return c.BAnd(c.Eq(h, Const(h.w, b.val>>uint(l.w))), c.Eq(l, Const(l.w, b.val)))
			}
		}
	}
	if a.op == OpZExt && b.op == OpZExt && a.args[0].w == b.args[0].w {
		return c.Eq(a.args[0], b.args[0])
	}
	if a.w == 64 {
		if c1, c2, ok := sameNarrowBase(a, b); ok {
			return BoolT(c1 == c2)
		}
	}
	if a.id > b.id && b.op != OpConst {
		a, b = b, a
	}
	return c.mk(OpEq, 0, 0, "", a, b)
}

// pushCmp pushes a comparison with a constant into an ite tree whose leaves
// are constants. Returns nil if the tree has a non-constant leaf or is too deep.
func (c *TermCtx) pushCmp(op Op, a, k *Term, swapped bool, depth int) *Term {
	if a.op == OpConst {
		if swapped {
			return c.Cmp(op, k, a)
		}
		return c.Cmp(op, a, k)
	}
	if a.op != OpIte || depth == 0 {
		return nil
	}
	t := c.pushCmp(op, a.args[1], k, swapped, depth-1)
	if t == nil {
		return nil
	}
	e := c.pushCmp(op, a.args[2], k, swapped, depth-1)
	if e == nil {
		return nil
	}
	return c.Ite(a.args[0], t, e)
}

func (c *TermCtx) Cmp(op Op, a, b *Term) *Term {
	if op == OpEq {
		return c.Eq(a, b)
	}
	if a.w != b.w {
		panic(fmt.Sprintf("Cmp: width mismatch %d vs %d", a.w, b.w))
	}
	w := a.w
	if a.op == OpConst && b.op == OpConst && w <= 64 {
		switch op {
		case OpULt:
			return BoolT(a.val < b.val)
		case OpULe:
			return BoolT(a.val <= b.val)
		case OpSLt:
			return BoolT(sx(a.val, w) < sx(b.val, w))
		case OpSLe:
			return BoolT(sx(a.val, w) <= sx(b.val, w))
		}
	}
	if a == b {
		return BoolT(op == OpULe || op == OpSLe)
	}
	if b.op == OpConst && a.op == OpIte {
		if r := c.pushCmp(op, a, b, false, 6); r != nil {
			return r
		}
	}
	if a.op == OpConst && b.op == OpIte {
		if r := c.pushCmp(op, b, a, true, 6); r != nil {
			return r
		}
	}
	switch op {
	case OpULt:
		if b.op == OpConst && b.val == 0 {
			return tFalse
		}
		if a.op == OpConst && w <= 64 && a.val == mask(w) {
			return tFalse
		}
	case OpULe:
		if a.op == OpConst && a.val == 0 {
			return tTrue
		}
		if b.op == OpConst && w <= 64 && b.val == mask(w) {
			return tTrue
		}
	}
	// (base + c1) cmp (base + c2) with base a zero-extended narrow value: no wrap-around is possible
	if w == 64 {
		if c1, c2, ok := sameNarrowBase(a, b); ok {
			switch op {
			case OpSLt:
				return BoolT(c1 < c2)
			case OpSLe:
				return BoolT(c1 <= c2)
			case OpULt:
				if c1 >= 0 && c2 >= 0 {
					return BoolT(c1 < c2)
				}
			case OpULe:
				if c1 >= 0 && c2 >= 0 {
					return BoolT(c1 <= c2)
				}
			}
		}
	}
	// zext(x) cmp zext(y), same inner width: unsigned compare of the inner values
	if a.op == OpZExt && b.op == OpZExt && a.args[0].w == b.args[0].w && a.args[0].w < w {
		switch op {
		case OpULt, OpSLt:
			return c.Cmp(OpULt, a.args[0], b.args[0])
		case OpULe, OpSLe:
			return c.Cmp(OpULe, a.args[0], b.args[0])
		}
	}
	// zext(x) cmp const
	if a.op == OpZExt && b.op == OpConst && a.args[0].w < w && w <= 64 {
		x := a.args[0]
		bv := b.val
		if (op == OpSLt || op == OpSLe) && sx(bv, w) < 0 {
			return tFalse
		}
		if bv > mask(x.w) {
			return tTrue
		}
		if op == OpULt || op == OpSLt {
			return c.Cmp(OpULt, x, Const(x.w, bv))
		}
		return c.Cmp(OpULe, x, Const(x.w, bv))
	}
	if b.op == OpZExt && a.op == OpConst && b.args[0].w < w && w <= 64 {
		x := b.args[0]
		av := a.val
		if (op == OpSLt || op == OpSLe) && sx(av, w) < 0 {
			return tTrue
		}
		if av > mask(x.w) {
			return tFalse
		}
		if op == OpULt || op == OpSLt {
			return c.Cmp(OpULt, Const(x.w, av), x)
		}
		return c.Cmp(OpULe, Const(x.w, av), x)
	}
	return c.mk(op, 0, 0, "", a, b)
}

// ---------- booleans ----------

func (c *TermCtx) BNot(a *Term) *Term {
	if a.w != 0 {
		panic("BNot: not bool")
	}
	if a.op == OpConst {
		return BoolT(a.val == 0)
	}
	if a.op == OpBNot {
		return a.args[0]
	}
	return c.mk(OpBNot, 0, 0, "", a)
}

func (c *TermCtx) BAnd(a, b *Term) *Term {
	if a.w != 0 || b.w != 0 {
		panic("BAnd: not bool")
	}
	if a.op == OpConst {
		if a.val == 0 {
			return tFalse
		}
		return b
	}
	if b.op == OpConst {
		if b.val == 0 {
			return tFalse
		}
		return a
	}
	if a == b {
		return a
	}
	if (a.op == OpBNot && a.args[0] == b) || (b.op == OpBNot && b.args[0] == a) {
		return tFalse
	}
	if a.id > b.id {
		a, b = b, a
	}
	return c.mk(OpBAnd, 0, 0, "", a, b)
}

func (c *TermCtx) BOr(a, b *Term) *Term {
	if a.w != 0 || b.w != 0 {
		panic("BOr: not bool")
	}
	if a.op == OpConst {
		if a.val == 1 {
			return tTrue
		}
		return b
	}
	if b.op == OpConst {
		if b.val == 1 {
			return tTrue
		}
		return a
	}
	if a == b {
		return a
	}
	if (a.op == OpBNot && a.args[0] == b) || (b.op == OpBNot && b.args[0] == a) {
		return tTrue
	}
	if a.id > b.id {
		a, b = b, a
	}
	return c.mk(OpBOr, 0, 0, "", a, b)
}

func (c *TermCtx) Implies(a, b *Term) *Term { return c.BOr(c.BNot(a), b) }

func (c *TermCtx) Ite(cond, a, b *Term) *Term {
	if cond.w != 0 {
		panic("Ite: cond not bool")
	}
	if a.w != b.w {
		panic(fmt.Sprintf("Ite: sort mismatch %d vs %d", a.w, b.w))
	}
	if cond.op == OpConst {
		if cond.val == 1 {
			return a
		}
		return b
	}
	if a == b {
		return a
	}
	if a.op == OpConst && b.op == OpConst && a.w == b.w && a.val == b.val {
		return a
	}
	if a.w == 0 {
		if a.op == OpConst && b.op == OpConst {
			if a.val == 1 {
				return cond
			}
			return c.BNot(cond)
		}
		if a.op == OpConst {
			if a.val == 1 {
				return c.BOr(cond, b)
			}
			return c.BAnd(c.BNot(cond), b)
		}
		if b.op == OpConst {
			if b.val == 1 {
				return c.BOr(c.BNot(cond), a)
			}
			return c.BAnd(cond, a)
		}
	}
	if cond.op == OpBNot {
		return c.Ite(cond.args[0], b, a)
	}
	return c.mk(OpIte, a.w, 0, "", cond, a, b)
}

// ---------- arrays ----------

func (c *TermCtx) Select(arr, idx *Term) *Term {
	if arr.w != ArrW || idx.w != 64 {
		panic("Select: bad sorts")
	}
	a := arr
	for steps := 0; steps < 100000; steps++ {
		switch a.op {
		case OpArrZero:
			return Const(8, 0)
		case OpStore:
			i := a.args[1]
			if i == idx || (i.op == OpConst && idx.op == OpConst && i.val == idx.val) {
				return a.args[2]
			}
			if i.op == OpConst && idx.op == OpConst {
				a = a.args[0]
				continue
			}
			// distinct by constant offset from same base: (x+c1) vs (x+c2)
			if distinctByOffset(i, idx) {
				a = a.args[0]
				continue
			}
		}
		break
	}
	return c.mk(OpSelect, 8, 0, "", a, idx)
}

func splitOff(t *Term) (*Term, uint64) {
	if t.op == OpAdd && t.args[1].op == OpConst {
		return t.args[0], t.args[1].val
	}
	return t, 0
}

func distinctByOffset(a, b *Term) bool {
	if a.op == OpConst || b.op == OpConst {
		return false
	}
	ab, ao := splitOff(a)
	bb, bo := splitOff(b)
	return ab == bb && ao != bo
}

func (c *TermCtx) Store(arr, idx, v *Term) *Term {
	if arr.w != ArrW || idx.w != 64 || v.w != 8 {
		panic("Store: bad sorts")
	}
	if arr.op == OpStore && (arr.args[1] == idx || (arr.args[1].op == OpConst && idx.op == OpConst && arr.args[1].val == idx.val)) {
		return c.mk(OpStore, ArrW, 0, "", arr.args[0], idx, v)
	}
	return c.mk(OpStore, ArrW, 0, "", arr, idx, v)
}

// ---------- helpers ----------

func (c *TermCtx) BoolToBV(b *Term, w int) *Term {
	return c.Ite(b, Const(w, 1), Const(w, 0))
}

func (c *TermCtx) AndAll(ts []*Term) *Term {
	r := tTrue
	for _, t := range ts {
		r = c.BAnd(r, t)
	}
	return r
}

func popcount(v uint64) int { return bits.OnesCount64(v) }

// ---------- printing ----------

type Printer struct {
	defined map[int]bool
	out     *strings.Builder
}

func constStr(t *Term) string {
	if t.w == 0 {
		if t.val != 0 {
			return "true"
		}
		return "false"
	}
	if t.w%4 == 0 && t.w <= 64 {
		return fmt.Sprintf("#x%0*x", t.w/4, t.val)
	}
	if t.w > 64 {
		return fmt.Sprintf("((_ zero_extend %d) #x%016x)", t.w-64, t.val)
	}
	return fmt.Sprintf("#b%0*b", t.w, t.val)
}

func ref(t *Term) string {
	switch t.op {
	case OpConst:
		return constStr(t)
	case OpVar:
		return "|" + t.name + "|"
	}
	return fmt.Sprintf("t%d", t.id)
}

// Define emits declarations / definitions needed for t (post-order, iterative).
func (p *Printer) Define(t *Term) {
	type item struct {
		t    *Term
		next int
	}
	if t.op == OpConst || p.defined[t.id] {
		return
	}
	stack := []item{{t, 0}}
	for len(stack) > 0 {
		top := &stack[len(stack)-1]
		if top.next < len(top.t.args) {
			a := top.t.args[top.next]
			top.next++
			if a.op != OpConst && !p.defined[a.id] {
				stack = append(stack, item{a, 0})
			}
			continue
		}
		x := top.t
		stack = stack[:len(stack)-1]
		if p.defined[x.id] {
			continue
		}
		p.defined[x.id] = true
		switch x.op {
		case OpVar:
			fmt.Fprintf(p.out, "(declare-const |%s| %s)\n", x.name, sortOf(x.w))
		case OpArrZero:
			fmt.Fprintf(p.out, "(define-fun t%d () %s ((as const %s) #x00))\n", x.id, sortOf(ArrW), sortOf(ArrW))
		case OpExtract:
			fmt.Fprintf(p.out, "(define-fun t%d () %s ((_ extract %d %d) %s))\n", x.id, sortOf(x.w), x.val>>8, x.val&0xff, ref(x.args[0]))
		case OpZExt:
			fmt.Fprintf(p.out, "(define-fun t%d () %s ((_ zero_extend %d) %s))\n", x.id, sortOf(x.w), x.w-x.args[0].w, ref(x.args[0]))
		case OpSExt:
			fmt.Fprintf(p.out, "(define-fun t%d () %s ((_ sign_extend %d) %s))\n", x.id, sortOf(x.w), x.w-x.args[0].w, ref(x.args[0]))
		case OpUF:
			fmt.Fprintf(p.out, "(define-fun t%d () %s (%s", x.id, sortOf(x.w), x.name)
			for _, a := range x.args {
				p.out.WriteString(" " + ref(a))
			}
			if len(x.args) == 0 {
				// nullary UF: plain constant
				p.out.WriteString("")
			}
			p.out.WriteString("))\n")
		default:
			fmt.Fprintf(p.out, "(define-fun t%d () %s (%s", x.id, sortOf(x.w), opNames[x.op])
			for _, a := range x.args {
				p.out.WriteString(" " + ref(a))
			}
			p.out.WriteString("))\n")
		}
	}
}

// String renders a term for debugging (no sharing).
func (t *Term) String() string {
	return t.str(0)
}

func (t *Term) str(d int) string {
	if d > 6 {
		return "…"
	}
	switch t.op {
	case OpConst:
		if t.w == 0 {
			return constStr(t)
		}
		return fmt.Sprintf("%d:%d", t.val, t.w)
	case OpVar:
		return t.name
	case OpExtract:
		return fmt.Sprintf("%s[%d:%d]", t.args[0].str(d+1), t.val>>8, t.val&0xff)
	case OpArrZero:
		return "zeros"
	}
	n := opNames[t.op]
	if t.op == OpZExt {
		n = fmt.Sprintf("zext%d", t.w)
	} else if t.op == OpSExt {
		n = fmt.Sprintf("sext%d", t.w)
	} else if t.op == OpUF {
		n = t.name
	}
	var sb strings.Builder
	sb.WriteString("(" + n)
	for _, a := range t.args {
		sb.WriteString(" " + a.str(d+1))
	}
	sb.WriteString(")")
	return sb.String()
}

// ---------- rewriting (substitution + re-simplification) ----------

// Rewriter substitutes terms by constants and rebuilds through the simplifying
// constructors. Used for (a) propagating equalities the path condition fixes
// and (b) evaluating a condition under a cached model.
type Rewriter struct {
	tc          *TermCtx
	subst       map[*Term]*Term
	memo        map[*Term]*Term
	defaultZero bool // unmapped bit-vector/bool variables evaluate to 0 (model mode)
}

func (r *Rewriter) Rw(t *Term) *Term {
	if t.op == OpConst {
		return t
	}
	if v, ok := r.memo[t]; ok {
		return v
	}
	if v, ok := r.subst[t]; ok {
		r.memo[t] = v
		return v
	}
	var res *Term
	switch t.op {
	case OpVar:
		if r.defaultZero && t.w >= 0 {
			res = Const64w(t.w, 0)
			if t.w == 0 {
				res = tFalse
			}
			r.subst[t] = res
		} else {
			res = t
		}
	case OpArrZero:
		res = t
	default:
		changed := false
		var buf [3]*Term
		args := buf[:0]
		if len(t.args) > 3 {
			args = make([]*Term, 0, len(t.args))
		}
		for _, a := range t.args {
			na := r.Rw(a)
			if na != a {
				changed = true
			}
			args = append(args, na)
		}
		if !changed {
			res = t
			break
		}
		tc := r.tc
		switch t.op {
		case OpAdd, OpSub, OpMul, OpUDiv, OpSDiv, OpURem, OpSRem, OpAnd, OpOr, OpXor, OpShl, OpLShr, OpAShr:
			res = tc.Bin(t.op, args[0], args[1])
		case OpNot:
			res = tc.Not(args[0])
		case OpNeg:
			res = tc.Neg(args[0])
		case OpConcat:
			res = tc.Concat(args[0], args[1])
		case OpExtract:
			res = tc.Extract(args[0], int(t.val>>8), int(t.val&0xff))
		case OpZExt:
			res = tc.ZExt(args[0], t.w)
		case OpSExt:
			res = tc.SExt(args[0], t.w)
		case OpEq:
			res = tc.Eq(args[0], args[1])
		case OpULt, OpULe, OpSLt, OpSLe:
			res = tc.Cmp(t.op, args[0], args[1])
		case OpBAnd:
			res = tc.BAnd(args[0], args[1])
		case OpBOr:
			res = tc.BOr(args[0], args[1])
		case OpBNot:
			res = tc.BNot(args[0])
		case OpIte:
			res = tc.Ite(args[0], args[1], args[2])
		case OpSelect:
			res = tc.Select(args[0], args[1])
		case OpStore:
			res = tc.Store(args[0], args[1], args[2])
		case OpUF:
			res = tc.UF(t.name, t.w, append([]*Term(nil), args...)...)
		default:
			panic("Rewriter: unhandled op")
		}
	}
	r.memo[t] = res
	return res
}
