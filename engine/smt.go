package main

// One live solver process, SMT-LIB2 over pipes. No set-logic (z3 4.8.12 drops
// constant arrays under QF_ABV). Any "(error" line makes the answer "error".

import (
	"bufio"
	"fmt"
	"io"
	"os"
	"os/exec"
	"strconv"
	"strings"
	"time"
)

type Solver struct {
	name    string
	cmd     *exec.Cmd
	in      io.WriteCloser
	out     *bufio.Reader
	pr      *Printer
	buf     strings.Builder
	timeout int // ms per query
	Queries int
	Sat     int
	Unsat   int
	Unknown int
	Time    time.Duration
	dead    bool
	log     io.Writer
	nUF     int
}

func solverArgs(name string, timeoutMs int) (string, []string) {
	switch name {
	case "z3":
		return "z3", []string{"-in", fmt.Sprintf("-t:%d", timeoutMs)}
	case "z3-new":
		return "z3-new", []string{"-in", fmt.Sprintf("-t:%d", timeoutMs)}
	case "cvc5":
		return "cvc5", []string{"--incremental", "--lang=smt2", "--produce-models", fmt.Sprintf("--tlimit-per=%d", timeoutMs)}
	}
	panic("unknown solver " + name)
}

func NewSolver(name string, timeoutMs int) (*Solver, error) {
	bin, args := solverArgs(name, timeoutMs)
	cmd := exec.Command(bin, args...)
	in, err := cmd.StdinPipe()
	if err != nil {
		return nil, err
	}
	out, err := cmd.StdoutPipe()
	if err != nil {
		return nil, err
	}
	cmd.Stderr = nil
	if err := cmd.Start(); err != nil {
		return nil, err
	}
	s := &Solver{name: name, cmd: cmd, in: in, out: bufio.NewReaderSize(out, 1<<16), timeout: timeoutMs}
	if dir := os.Getenv("VERIF_SMTLOG"); dir != "" {
		if f, err := os.Create(fmt.Sprintf("%s/solver-%d.smt2", dir, cmd.Process.Pid)); err == nil {
			s.log = f
		}
	}
	s.Reset()
	return s, nil
}

func (s *Solver) Close() {
	if s.cmd != nil {
		s.in.Close()
		s.cmd.Process.Kill()
		s.cmd.Wait()
		s.cmd = nil
	}
}

// Reset forgets all declarations and assertions.
func (s *Solver) Reset() {
	s.buf.Reset()
	s.buf.WriteString("(reset)\n")
	if s.name == "cvc5" {
		s.buf.WriteString("(set-logic ALL)\n")
	}
	s.buf.WriteString("(set-option :produce-models true)\n")
	s.pr = &Printer{defined: map[int]bool{}, out: &s.buf}
	s.nUF = 0
}

func (s *Solver) flush() error {
	if s.buf.Len() == 0 {
		return nil
	}
	if s.log != nil {
		io.WriteString(s.log, s.buf.String())
	}
	_, err := io.WriteString(s.in, s.buf.String())
	s.buf.Reset()
	return err
}

func (s *Solver) declareUFs(tc *TermCtx) {
	for s.nUF < len(tc.uflist) {
		s.buf.WriteString(tc.uflist[s.nUF] + "\n")
		s.nUF++
	}
}

// Assert adds t permanently (until Reset).
func (s *Solver) Assert(tc *TermCtx, t *Term) {
	s.declareUFs(tc)
	s.pr.Define(t)
	fmt.Fprintf(&s.buf, "(assert %s)\n", ref(t))
}

type SatResult int

const (
	ResSat SatResult = iota
	ResUnsat
	ResUnknown
	ResError
)

func (r SatResult) String() string {
	return [...]string{"sat", "unsat", "unknown", "error"}[r]
}

func (s *Solver) readLine() (string, error) {
	line, err := s.out.ReadString('\n')
	return strings.TrimSpace(line), err
}

// readAnswer reads one check-sat answer, skipping nothing: any unexpected line is an error.
func (s *Solver) readAnswer() (SatResult, string) {
	for {
		line, err := s.readLine()
		if err != nil {
			s.dead = true
			return ResError, "solver died: " + err.Error()
		}
		switch {
		case line == "":
			continue
		case line == "sat":
			return ResSat, ""
		case line == "unsat":
			return ResUnsat, ""
		case line == "unknown" || line == "timeout":
			return ResUnknown, ""
		case strings.HasPrefix(line, "(error"):
			return ResError, line
		default:
			return ResError, "unexpected solver output: " + line
		}
	}
}

// Check asks whether the asserted context plus extra (may be nil) is satisfiable.
// With keep=true and result sat, the push frame is kept open for GetValues and
// must be closed by PopKeep.
func (s *Solver) Check(tc *TermCtx, extra *Term, keep bool) (SatResult, string) {
	if s.dead {
		return ResError, "solver dead"
	}
	s.declareUFs(tc)
	if extra != nil {
		s.pr.Define(extra)
		fmt.Fprintf(&s.buf, "(push 1)\n(assert %s)\n", ref(extra))
	}
	s.buf.WriteString("(check-sat)\n")
	start := time.Now()
	if err := s.flush(); err != nil {
		s.dead = true
		return ResError, err.Error()
	}
	r, msg := s.readAnswer()
	s.Time += time.Since(start)
	if d := time.Since(start); d > 5*time.Second && slowQueryLog {
		fmt.Fprintf(os.Stderr, "[slow query %.1fs -> %s]\n", d.Seconds(), r)
	}
	s.Queries++
	switch r {
	case ResSat:
		s.Sat++
	case ResUnsat:
		s.Unsat++
	default:
		s.Unknown++
	}
	if extra != nil && !(keep && r == ResSat) {
		s.buf.WriteString("(pop 1)\n")
	}
	return r, msg
}

func (s *Solver) PopKeep() { s.buf.WriteString("(pop 1)\n") }

// GetValues evaluates terms under the current model (after a sat Check).
// Terms must already be defined in the solver context or be definable without
// changing satisfiability (definitions only).
func (s *Solver) GetValues(tc *TermCtx, ts []*Term) ([]uint64, error) {
	res := make([]uint64, len(ts))
	const chunk = 512
	for base := 0; base < len(ts); base += chunk {
		end := base + chunk
		if end > len(ts) {
			end = len(ts)
		}
		// definitions after check-sat invalidate the model in some solvers; callers define first.
		s.buf.WriteString("(get-value (")
		for _, t := range ts[base:end] {
			s.buf.WriteString(ref(t) + " ")
		}
		s.buf.WriteString("))\n")
		if err := s.flush(); err != nil {
			return nil, err
		}
		txt, err := s.readSexp()
		if err != nil {
			return nil, err
		}
		vals, err := parseValues(txt, end-base)
		if err != nil {
			return nil, fmt.Errorf("%v in %q", err, txt)
		}
		copy(res[base:end], vals)
	}
	return res, nil
}

func (s *Solver) readSexp() (string, error) {
	var sb strings.Builder
	depth := 0
	started := false
	for {
		line, err := s.out.ReadString('\n')
		if err != nil {
			s.dead = true
			return "", err
		}
		sb.WriteString(line)
		for _, ch := range line {
			if ch == '(' {
				depth++
				started = true
			} else if ch == ')' {
				depth--
			}
		}
		if started && depth <= 0 {
			break
		}
	}
	txt := sb.String()
	if strings.Contains(txt, "(error") {
		return "", fmt.Errorf("solver error: %s", txt)
	}
	return txt, nil
}

// parseValues parses "((t1 #x01) (t2 true) ...)" extracting the value of each pair in order.
func parseValues(txt string, n int) ([]uint64, error) {
	toks := tokenize(txt)
	pos := 0
	expect := func(s string) error {
		if pos >= len(toks) || toks[pos] != s {
			return fmt.Errorf("expected %q at token %d", s, pos)
		}
		pos++
		return nil
	}
	if err := expect("("); err != nil {
		return nil, err
	}
	var res []uint64
	for i := 0; i < n; i++ {
		if err := expect("("); err != nil {
			return nil, err
		}
		// skip the term (one token or a balanced sexp)
		if toks[pos] == "(" {
			d := 0
			for {
				if toks[pos] == "(" {
					d++
				} else if toks[pos] == ")" {
					d--
				}
				pos++
				if d == 0 {
					break
				}
			}
		} else {
			pos++
		}
		// value
		v, np, err := parseValue(toks, pos)
		if err != nil {
			return nil, err
		}
		pos = np
		res = append(res, v)
		if err := expect(")"); err != nil {
			return nil, err
		}
	}
	return res, nil
}

func parseValue(toks []string, pos int) (uint64, int, error) {
	t := toks[pos]
	switch {
	case t == "true":
		return 1, pos + 1, nil
	case t == "false":
		return 0, pos + 1, nil
	case strings.HasPrefix(t, "#x"):
		s := t[2:]
		if len(s) > 16 {
			s = s[len(s)-16:]
		}
		v, err := strconv.ParseUint(s, 16, 64)
		return v, pos + 1, err
	case strings.HasPrefix(t, "#b"):
		s := t[2:]
		if len(s) > 64 {
			s = s[len(s)-64:]
		}
		v, err := strconv.ParseUint(s, 2, 64)
		return v, pos + 1, err
	case t == "(":
		// (_ bv123 32)
		if toks[pos+1] == "_" && strings.HasPrefix(toks[pos+2], "bv") {
			v, err := strconv.ParseUint(toks[pos+2][2:], 10, 64)
			return v, pos + 5, err
		}
	}
	return 0, pos, fmt.Errorf("cannot parse value token %q", t)
}

func tokenize(s string) []string {
	var toks []string
	i := 0
	for i < len(s) {
		ch := s[i]
		switch {
		case ch == '(' || ch == ')':
			toks = append(toks, string(ch))
			i++
		case ch == ' ' || ch == '\n' || ch == '\t' || ch == '\r':
			i++
		case ch == '|':
			j := i + 1
			for j < len(s) && s[j] != '|' {
				j++
			}
			toks = append(toks, s[i:j+1])
			i = j + 1
		default:
			j := i
			for j < len(s) && s[j] != '(' && s[j] != ')' && s[j] != ' ' && s[j] != '\n' && s[j] != '\t' && s[j] != '\r' {
				j++
			}
			toks = append(toks, s[i:j])
			i = j
		}
	}
	return toks
}
