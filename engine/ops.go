package main

import (
	"fmt"
	"go/constant"
	"go/token"
	"go/types"
	"math"
	"strings"

	"golang.org/x/tools/go/ssa"
)

func constBool(c *ssa.Const) bool     { return constant.BoolVal(c.Value) }
func constString(c *ssa.Const) string { return constant.StringVal(c.Value) }

const maxAlloc = 1 << 48 // runtime's maxAlloc on linux/amd64: makeslice panics when len*size exceeds it

// ---------- loads and stores ----------

func (m *Machine) load(fr *frame, T types.Type, addr Value) Value {
	switch p := addr.(type) {
	case *Value:
		if p == nil {
			m.rtPanic(fr, "invalid memory address or nil pointer dereference")
		}
		return m.copyVal(*p)
	case BytePtr:
		if p.obj == nil {
			m.rtPanic(fr, "invalid memory address or nil pointer dereference")
		}
		return m.loadBytes(fr, p, T)
	case SymElemPtr:
		var r *Term
		for i := len(p.s) - 1; i >= 0; i-- {
			e, ok := p.s[i].(*Term)
			if !ok {
				panic(engineErr{"symbolic index into slice of non-scalar elements"})
			}
			if r == nil {
				r = e
			} else {
				r = m.tc.Ite(m.tc.Eq(p.idx, Const(64, uint64(i))), e, r)
			}
		}
		return r
	}
	panic(engineErr{fmt.Sprintf("load through %T", addr)})
}

func (m *Machine) byteWidthOf(T types.Type) (nbytes int, isBool bool, ok bool) {
	w, _, isInt := intWidth(T)
	if !isInt {
		return 0, false, false
	}
	if w == 0 {
		return 1, true, true
	}
	return w / 8, false, true
}

func (m *Machine) checkBytePtr(fr *frame, p BytePtr, n int) {
	// an unsafe access outside the allocation is memory-unsafe: make it a panic path
	end := m.tc.Bin(OpAdd, p.off, Const(64, uint64(n)))
	ok := m.tc.BAnd(m.tc.Cmp(OpULe, end, p.obj.size), m.tc.Cmp(OpULe, p.off, end))
	if !m.branch(ok) {
		m.rtPanic(fr, "unsafe pointer access outside its allocation (offset %s, size %s)", p.off, p.obj.size)
	}
}

func (m *Machine) loadBytes(fr *frame, p BytePtr, T types.Type) Value {
	if n, isBool, ok := m.byteWidthOf(T); ok {
		m.checkBytePtr(fr, p, n)
		var r *Term
		for i := 0; i < n; i++ {
			b := p.obj.get(m, m.tc.Bin(OpAdd, p.off, Const(64, uint64(i))))
			if r == nil {
				r = b
			} else {
				r = m.tc.Concat(b, r)
			}
		}
		if isBool {
			return m.tc.BNot(m.tc.Eq(r, Const(8, 0)))
		}
		return r
	}
	if at, ok := T.Underlying().(*types.Array); ok && isByteType(at.Elem()) {
		n := int(at.Len())
		m.checkBytePtr(fr, p, n)
		o := m.newByteObj(Const(64, uint64(n)))
		for i := 0; i < n; i++ {
			o.set(m, Const(64, uint64(i)), p.obj.get(m, m.tc.Bin(OpAdd, p.off, Const(64, uint64(i)))))
		}
		return o
	}
	switch u := T.Underlying().(type) {
	case *types.Struct:
		st := make(Struct, u.NumFields())
		for i := range st {
			fp := BytePtr{obj: p.obj, off: m.tc.Bin(OpAdd, p.off, Const(64, uint64(m.fieldOffset(u, i))))}
			if m.p.sizes.Sizeof(u.Field(i).Type()) == 0 {
				st[i] = m.zero(u.Field(i).Type())
				continue
			}
			st[i] = m.loadBytes(fr, fp, u.Field(i).Type())
		}
		return st
	case *types.Array:
		esz := uint64(m.p.sizes.Sizeof(u.Elem()))
		arr := make(Array, u.Len())
		for i := range arr {
			arr[i] = m.loadBytes(fr, BytePtr{obj: p.obj, off: m.tc.Bin(OpAdd, p.off, Const(64, uint64(i)*esz))}, u.Elem())
		}
		return arr
	}
	panic(engineErr{fmt.Sprintf("load of %v through a byte pointer", T)})
}

func (m *Machine) store(fr *frame, T types.Type, addr Value, v Value) {
	switch p := addr.(type) {
	case *Value:
		if p == nil {
			m.rtPanic(fr, "invalid memory address or nil pointer dereference")
		}
		func() {
			defer func() {
				if r := recover(); r != nil {
					if ee, ok := r.(engineErr); ok {
						panic(engineErr{ee.msg + " at " + m.where(fr)})
					}
					panic(r)
				}
			}()
			m.storeInto(p, m.copyVal(v))
		}()
		return
	case BytePtr:
		if p.obj == nil {
			m.rtPanic(fr, "invalid memory address or nil pointer dereference")
		}
		if n, isBool, ok := m.byteWidthOf(T); ok {
			m.checkBytePtr(fr, p, n)
			t := v.(*Term)
			if isBool {
				t = m.tc.BoolToBV(t, 8)
			}
			for i := 0; i < n; i++ {
				p.obj.set(m, m.tc.Bin(OpAdd, p.off, Const(64, uint64(i))), m.tc.Extract(t, 8*i+7, 8*i))
			}
			return
		}
		if at, ok := T.Underlying().(*types.Array); ok && isByteType(at.Elem()) {
			n := int(at.Len())
			m.checkBytePtr(fr, p, n)
			src := v.(*ByteObj)
			for i := 0; i < n; i++ {
				p.obj.set(m, m.tc.Bin(OpAdd, p.off, Const(64, uint64(i))), src.get(m, Const(64, uint64(i))))
			}
			return
		}
		switch u := T.Underlying().(type) {
		case *types.Struct:
			sv := v.(Struct)
			for i := range sv {
				if m.p.sizes.Sizeof(u.Field(i).Type()) == 0 {
					continue
				}
				fp := BytePtr{obj: p.obj, off: m.tc.Bin(OpAdd, p.off, Const(64, uint64(m.fieldOffset(u, i))))}
				m.store(fr, u.Field(i).Type(), fp, sv[i])
			}
			return
		case *types.Array:
			av := v.(Array)
			esz := uint64(m.p.sizes.Sizeof(u.Elem()))
			for i := range av {
				m.store(fr, u.Elem(), BytePtr{obj: p.obj, off: m.tc.Bin(OpAdd, p.off, Const(64, uint64(i)*esz))}, av[i])
			}
			return
		}
		panic(engineErr{fmt.Sprintf("store of %v through a byte pointer", T)})
	case SymElemPtr:
		nv, ok := v.(*Term)
		if !ok {
			panic(engineErr{"symbolic index store of non-scalar"})
		}
		for i := range p.s {
			old := p.s[i].(*Term)
			p.s[i] = m.tc.Ite(m.tc.Eq(p.idx, Const(64, uint64(i))), nv, old)
		}
		return
	}
	panic(engineErr{fmt.Sprintf("store through %T", addr)})
}

// ---------- integer helpers ----------

func (m *Machine) toW(t *Term, signed bool, w int) *Term {
	switch {
	case t.w == w:
		return t
	case t.w > w:
		return m.tc.Extract(t, w-1, 0)
	case signed:
		return m.tc.SExt(t, w)
	}
	return m.tc.ZExt(t, w)
}

// idx64 converts an index/length operand of integer type T to a 64-bit term.
func (m *Machine) idx64(t *Term, T types.Type) *Term {
	_, signed, _ := intWidth(T)
	return m.toW(t, signed, 64)
}

// concreteInt forces t to a concrete value, forking over its feasible values
// (bounded by m.concBound; larger values end the path as a recorded cut).
func (m *Machine) concreteInt(fr *frame, v Value, what string) int64 {
	t := v.(*Term)
	if t.IsConst() {
		return sx(t.val, t.w)
	}
	return m.concretize(fr, t, what)
}

func (m *Machine) concretize(fr *frame, t *Term, what string) int64 {
	if t.IsConst() {
		return sx(t.val, t.w)
	}
	for k := 0; k <= m.concBound; k++ {
		if m.branch(m.tc.Eq(t, Const(t.w, uint64(k)))) {
			return int64(k)
		}
	}
	m.cut(fmt.Sprintf("concretize %s > %d in %s", what, m.concBound, fr.fn))
	panic("unreachable")
}

// ---------- unary / binary operators ----------

func (m *Machine) unop(fr *frame, instr *ssa.UnOp, x Value) Value {
	switch instr.Op {
	case token.ARROW:
		return m.chanRecv(fr, x, instr.CommaOk, instr.Type())
	case token.MUL:
		return m.load(fr, mustDeref(instr.X.Type()), x)
	case token.SUB:
		switch x := x.(type) {
		case *Term:
			return m.tc.Neg(x)
		case float64:
			return -x
		}
	case token.NOT:
		return m.tc.BNot(x.(*Term))
	case token.XOR:
		return m.tc.Not(x.(*Term))
	}
	panic(engineErr{fmt.Sprintf("invalid unary op %s %T", instr.Op, x)})
}

func (m *Machine) binop(fr *frame, op token.Token, tx, ty types.Type, x, y Value) Value {
	switch xv := x.(type) {
	case *Term:
		yv, ok := y.(*Term)
		if !ok {
			panic(engineErr{fmt.Sprintf("binop %s: %T vs %T", op, x, y)})
		}
		return m.intBinop(fr, op, tx, ty, xv, yv)
	case float64:
		yv := y.(float64)
		if b, ok := tx.Underlying().(*types.Basic); ok && b.Kind() == types.Float32 {
			xf, yf := float32(xv), float32(yv)
			switch op {
			case token.ADD:
				return float64(xf + yf)
			case token.SUB:
				return float64(xf - yf)
			case token.MUL:
				return float64(xf * yf)
			case token.QUO:
				return float64(xf / yf)
			}
		}
		switch op {
		case token.ADD:
			return xv + yv
		case token.SUB:
			return xv - yv
		case token.MUL:
			return xv * yv
		case token.QUO:
			return xv / yv
		case token.EQL:
			return BoolT(xv == yv)
		case token.NEQ:
			return BoolT(xv != yv)
		case token.LSS:
			return BoolT(xv < yv)
		case token.LEQ:
			return BoolT(xv <= yv)
		case token.GTR:
			return BoolT(xv > yv)
		case token.GEQ:
			return BoolT(xv >= yv)
		}
	case string, *SymStr:
		return m.strBinop(fr, op, x, y)
	}
	switch op {
	case token.EQL:
		return m.equals(fr, tx, x, y)
	case token.NEQ:
		return m.tc.BNot(m.equals(fr, tx, x, y))
	}
	panic(engineErr{fmt.Sprintf("invalid binary op: %T %s %T", x, op, y)})
}

func (m *Machine) intBinop(fr *frame, op token.Token, tx, ty types.Type, x, y *Term) Value {
	_, signed, _ := intWidth(tx)
	tc := m.tc
	switch op {
	case token.ADD:
		return tc.Bin(OpAdd, x, y)
	case token.SUB:
		return tc.Bin(OpSub, x, y)
	case token.MUL:
		return tc.Bin(OpMul, x, y)
	case token.QUO, token.REM:
		if !m.branch(tc.BNot(tc.Eq(y, Const(y.w, 0)))) {
			m.rtPanic(fr, "integer divide by zero")
		}
		if op == token.QUO {
			if signed {
				return tc.Bin(OpSDiv, x, y)
			}
			return tc.Bin(OpUDiv, x, y)
		}
		if signed {
			return tc.Bin(OpSRem, x, y)
		}
		return tc.Bin(OpURem, x, y)
	case token.AND:
		if x.w == 0 {
			return tc.BAnd(x, y)
		}
		return tc.Bin(OpAnd, x, y)
	case token.OR:
		if x.w == 0 {
			return tc.BOr(x, y)
		}
		return tc.Bin(OpOr, x, y)
	case token.XOR:
		if x.w == 0 {
			return tc.BNot(tc.Eq(x, y))
		}
		return tc.Bin(OpXor, x, y)
	case token.AND_NOT:
		return tc.Bin(OpAnd, x, tc.Not(y))
	case token.SHL, token.SHR:
		_, ysigned, _ := intWidth(ty)
		if ysigned {
			if !m.branch(tc.BNot(tc.Cmp(OpSLt, y, Const(y.w, 0)))) {
				m.rtPanic(fr, "negative shift amount")
			}
		}
		sop := OpShl
		if op == token.SHR {
			if signed {
				sop = OpAShr
			} else {
				sop = OpLShr
			}
		}
		if y.w <= x.w {
			return tc.Bin(sop, x, tc.ZExt(y, x.w))
		}
		inRange := tc.Cmp(OpULt, y, Const(y.w, uint64(x.w)))
		yy := tc.Extract(y, x.w-1, 0)
		var over *Term
		if sop == OpAShr {
			over = tc.Bin(OpAShr, x, Const(x.w, uint64(x.w-1)))
		} else {
			over = Const(x.w, 0)
		}
		return tc.Ite(inRange, tc.Bin(sop, x, yy), over)
	case token.EQL:
		return tc.Eq(x, y)
	case token.NEQ:
		return tc.BNot(tc.Eq(x, y))
	case token.LSS:
		if signed {
			return tc.Cmp(OpSLt, x, y)
		}
		return tc.Cmp(OpULt, x, y)
	case token.LEQ:
		if signed {
			return tc.Cmp(OpSLe, x, y)
		}
		return tc.Cmp(OpULe, x, y)
	case token.GTR:
		if signed {
			return tc.Cmp(OpSLt, y, x)
		}
		return tc.Cmp(OpULt, y, x)
	case token.GEQ:
		if signed {
			return tc.Cmp(OpSLe, y, x)
		}
		return tc.Cmp(OpULe, y, x)
	}
	panic(engineErr{fmt.Sprintf("invalid integer op %s", op)})
}

func (m *Machine) strBinop(fr *frame, op token.Token, x, y Value) Value {
	x, y = m.strVal(x), m.strVal(y)
	xs, xok := x.(string)
	ys, yok := y.(string)
	if xok && yok {
		switch op {
		case token.ADD:
			return xs + ys
		case token.EQL:
			return BoolT(xs == ys)
		case token.NEQ:
			return BoolT(xs != ys)
		case token.LSS:
			return BoolT(xs < ys)
		case token.LEQ:
			return BoolT(xs <= ys)
		case token.GTR:
			return BoolT(xs > ys)
		case token.GEQ:
			return BoolT(xs >= ys)
		}
	}
	a, b := m.strBytes(x), m.strBytes(y)
	switch op {
	case token.EQL:
		return m.bytesEqual(fr, a, b)
	case token.NEQ:
		return m.tc.BNot(m.bytesEqual(fr, a, b))
	case token.ADD:
		r := m.appendBytes(fr, ByteSlice{}, a)
		r = m.appendBytes(fr, r, b)
		return m.strVal(&SymStr{obj: r.obj, off: r.off, len: r.len})
	}
	c := m.bytesCompare(fr, a, b)
	z := Const(64, 0)
	switch op {
	case token.LSS:
		return m.tc.Cmp(OpSLt, c, z)
	case token.LEQ:
		return m.tc.Cmp(OpSLe, c, z)
	case token.GTR:
		return m.tc.Cmp(OpSLt, z, c)
	case token.GEQ:
		return m.tc.Cmp(OpSLe, z, c)
	}
	panic(engineErr{fmt.Sprintf("invalid string op %s", op)})
}

// equals implements == on non-integer, non-string values (and recursively on aggregates).
func (m *Machine) equals(fr *frame, t types.Type, x, y Value) *Term {
	switch xv := x.(type) {
	case *Term:
		return m.tc.Eq(xv, y.(*Term))
	case float64:
		return BoolT(xv == y.(float64))
	case string, *SymStr:
		return m.strBinop(fr, token.EQL, x, y).(*Term)
	case *Value:
		switch yv := y.(type) {
		case *Value:
			return BoolT(xv == yv)
		case BytePtr:
			return BoolT(xv == nil && yv.obj == nil)
		}
	case BytePtr:
		switch yv := y.(type) {
		case BytePtr:
			if xv.obj != yv.obj {
				return tFalse
			}
			if xv.obj == nil {
				return tTrue
			}
			return m.tc.Eq(xv.off, yv.off)
		case *Value:
			return BoolT(xv.obj == nil && yv == nil)
		}
	case *Map:
		return BoolT(xv == y.(*Map))
	case *Chan:
		return BoolT(xv == y.(*Chan))
	case Slice:
		// only comparison with nil is legal
		if ys, ok := y.(Slice); ok && (xv == nil || ys == nil) {
			return BoolT(xv == nil && ys == nil)
		}
	case ByteSlice:
		if ys, ok := y.(ByteSlice); ok && (xv.obj == nil || ys.obj == nil) {
			return BoolT(xv.obj == nil && ys.obj == nil)
		}
	case *ssa.Function, *Closure, *ssa.Builtin:
		return BoolT(isNilValue(x) && isNilValue(y))
	case Struct:
		ys := y.(Struct)
		st := t.Underlying().(*types.Struct)
		r := tTrue
		for i := range xv {
			if st.Field(i).Name() == "_" {
				continue
			}
			r = m.tc.BAnd(r, m.equals(fr, st.Field(i).Type(), xv[i], ys[i]))
		}
		return r
	case Array:
		ya := y.(Array)
		et := t.Underlying().(*types.Array).Elem()
		r := tTrue
		for i := range xv {
			r = m.tc.BAnd(r, m.equals(fr, et, xv[i], ya[i]))
		}
		return r
	case *ByteObj:
		yo := y.(*ByteObj)
		n := int(xv.size.val)
		r := tTrue
		for i := 0; i < n; i++ {
			k := Const(64, uint64(i))
			r = m.tc.BAnd(r, m.tc.Eq(xv.get(m, k), yo.get(m, k)))
		}
		return r
	case Iface:
		yi, ok := y.(Iface)
		if !ok {
			panic(engineErr{fmt.Sprintf("equals: iface vs %T", y)})
		}
		if xv.t == nil || yi.t == nil {
			return BoolT(xv.t == nil && yi.t == nil)
		}
		if !types.Identical(xv.t, yi.t) {
			return tFalse
		}
		if !types.Comparable(xv.t) {
			panic(&targetPanic{v: Iface{t: m.p.runtimeErrorString, v: "comparing uncomparable type"}, msg: "runtime error: comparing uncomparable type " + xv.t.String(), pos: m.where(fr)})
		}
		return m.equals(fr, xv.t, xv.v, yi.v)
	case nil:
		return BoolT(isNilValue(y))
	}
	panic(engineErr{fmt.Sprintf("equals: %T vs %T", x, y)})
}

// ---------- conversions ----------

var fakeAddrs = 0

func (m *Machine) conv(fr *frame, tdst, tsrc types.Type, x Value) Value {
	ud, us := tdst.Underlying(), tsrc.Underlying()
	if tp, ok := ud.(*types.TypeParam); ok {
		_ = tp
		panic(engineErr{"conversion to type parameter"})
	}
	switch us := us.(type) {
	case *types.Pointer:
		if bd, ok := ud.(*types.Basic); ok && bd.Kind() == types.UnsafePointer {
			return x
		}
		if _, ok := ud.(*types.Pointer); ok {
			return x
		}
	case *types.Slice:
		if isString(ud) {
			if bs, ok := x.(ByteSlice); ok {
				return m.bytesToString(fr, bs)
			}
			panic(engineErr{"conversion of non-byte slice to string"})
		}
		if _, ok := ud.(*types.Slice); ok {
			return x
		}
	case *types.Basic:
		if us.Kind() == types.UnsafePointer {
			if _, ok := ud.(*types.Pointer); ok {
				return x
			}
			if bd, ok := ud.(*types.Basic); ok {
				if bd.Kind() == types.Uintptr {
					return m.ptrToUintptr(x)
				}
				if bd.Kind() == types.UnsafePointer {
					return x
				}
			}
		}
		if isString(us) {
			if sd, ok := ud.(*types.Slice); ok {
				if isByteType(sd.Elem()) {
					src := m.strBytes(x)
					return m.appendBytes(fr, ByteSlice{obj: m.newByteObj(src.len), off: Const(64, 0), len: Const(64, 0), cap: src.len}, src)
				}
				if b, ok := sd.Elem().Underlying().(*types.Basic); ok && b.Kind() == types.Int32 {
					s, ok := m.strVal(x).(string)
					if !ok {
						panic(engineErr{"[]rune of symbolic string"})
					}
					var r Slice
					for _, ch := range s {
						r = append(r, Const(32, uint64(ch)))
					}
					return r
				}
			}
			if isString(ud) {
				return x
			}
		}
		if t, ok := x.(*Term); ok {
			_, ssigned, _ := intWidth(us)
			if w, _, ok := intWidth(ud); ok && w > 0 {
				if t.w == 0 {
					panic(engineErr{"conversion of bool to int"})
				}
				return m.toW(t, ssigned, w)
			}
			if bd, ok := ud.(*types.Basic); ok && bd.Kind() == types.UnsafePointer {
				// uintptr -> unsafe.Pointer
				if t.IsConst() && t.val == 0 {
					return (*Value)(nil)
				}
				if p, ok := m.fakePtrs[t.val]; ok && t.IsConst() {
					return p
				}
				if bp, ok := m.decodeBytePtr(t); ok {
					return bp
				}
				panic(engineErr{"conversion of integer to unsafe.Pointer"})
			}
			if isFloat(ud) {
				if !t.IsConst() {
					panic(engineErr{"conversion of symbolic integer to float"})
				}
				var f float64
				if ssigned {
					f = float64(sx(t.val, t.w))
				} else {
					f = float64(t.val)
				}
				if ud.(*types.Basic).Kind() == types.Float32 {
					f = float64(float32(f))
				}
				return f
			}
			if isString(ud) {
				if !t.IsConst() {
					panic(engineErr{"string(rune) of symbolic integer"})
				}
				return string(rune(sx(t.val, t.w)))
			}
		}
		if f, ok := x.(float64); ok {
			if w, signed, ok := intWidth(ud); ok && w > 0 {
				if signed {
					return Const(w, uint64(int64(f)))
				}
				if f >= 9223372036854775808.0 {
					return Const(w, uint64(f))
				}
				return Const(w, uint64(int64(f)))
			}
			if isFloat(ud) {
				if ud.(*types.Basic).Kind() == types.Float32 {
					return float64(float32(f))
				}
				return f
			}
		}
	case *types.Signature, *types.Map, *types.Chan, *types.Struct, *types.Array, *types.Interface:
		return x
	}
	panic(engineErr{fmt.Sprintf("unsupported conversion %v -> %v (%T)", tsrc, tdst, x)})
}

func (m *Machine) ptrToUintptr(x Value) Value {
	switch p := x.(type) {
	case *Value:
		if p == nil {
			return Const(64, 0)
		}
		for a, q := range m.fakePtrs {
			if q == Value(p) {
				return Const(64, a)
			}
		}
		m.nextFake += 0x1000
		a := uint64(0xc000000000) + m.nextFake
		m.fakePtrs[a] = p
		return Const(64, a)
	case BytePtr:
		if p.obj == nil {
			return Const(64, 0)
		}
		base := uint64(0xd000000000) + uint64(p.obj.id)<<24
		if m.addrObjs == nil {
			m.addrObjs = map[uint64]*ByteObj{}
		}
		m.addrObjs[base] = p.obj
		return m.tc.Bin(OpAdd, Const(64, base), p.off)
	}
	panic(engineErr{fmt.Sprintf("uintptr of %T", x)})
}

func (m *Machine) bytesToString(fr *frame, bs ByteSlice) Value {
	if bs.obj == nil {
		return ""
	}
	if bs.len.IsConst() && bs.len.val == 0 {
		return ""
	}
	// snapshot: strings are immutable
	snap := bs.obj.clone(m)
	snap.ro = true
	return m.strVal(&SymStr{obj: snap, off: bs.off, len: bs.len})
}

func (m *Machine) sliceToArrayPointer(fr *frame, t types.Type, x Value) Value {
	at := mustDeref(t).Underlying().(*types.Array)
	n := at.Len()
	switch s := x.(type) {
	case ByteSlice:
		if !m.branch(m.tc.Cmp(OpULe, Const(64, uint64(n)), m.lenOrZero(s))) {
			m.rtPanic(fr, "cannot convert slice with length %s to array or pointer to array with length %d", m.lenOrZero(s), n)
		}
		if s.obj == nil {
			return (*Value)(nil)
		}
		// a pointer to [N]byte inside a byte object
		return BytePtr{obj: s.obj, off: s.off}
	case Slice:
		if int64(len(s)) < n {
			m.rtPanic(fr, "cannot convert slice with length %d to array or pointer to array with length %d", len(s), n)
		}
		if s == nil {
			return (*Value)(nil)
		}
		panic(engineErr{"slice to array pointer of non-byte slice"})
	}
	panic(engineErr{fmt.Sprintf("sliceToArrayPointer of %T", x)})
}

func (m *Machine) lenOrZero(s ByteSlice) *Term {
	if s.obj == nil {
		return Const(64, 0)
	}
	return s.len
}

// ---------- indexing and slicing ----------

func (m *Machine) boundsCheck(fr *frame, idx *Term, n *Term, what string) {
	// 0 <= idx < n, idx and n 64-bit (signed ints): unsigned compare covers negatives
	if !m.branch(m.tc.Cmp(OpULt, idx, n)) {
		m.rtPanic(fr, "index out of range [%s] with length %s", idx, n)
	}
}

// indexAddrT is indexAddr with the static type of the indexed operand, needed for typed
// views over byte objects (pointer to an array of non-byte elements inside an arena).
func (m *Machine) indexAddrT(fr *frame, xT types.Type, x Value, idx *Term, idxT types.Type) Value {
	if bp, ok := x.(BytePtr); ok {
		if pt, ok := xT.Underlying().(*types.Pointer); ok {
			if at, ok := pt.Elem().Underlying().(*types.Array); ok && !isByteType(at.Elem()) {
				i := m.idx64(idx, idxT)
				m.boundsCheck(fr, i, Const(64, uint64(at.Len())), "array")
				esz := uint64(m.p.sizes.Sizeof(at.Elem()))
				return BytePtr{obj: bp.obj, off: m.tc.Bin(OpAdd, bp.off, m.tc.Bin(OpMul, i, Const(64, esz)))}
			}
		}
	}
	return m.indexAddr(fr, x, idx, idxT)
}

func (m *Machine) indexAddr(fr *frame, x Value, idx *Term, idxT types.Type) Value {
	i := m.idx64(idx, idxT)
	switch x := x.(type) {
	case Slice:
		m.boundsCheck(fr, i, Const(64, uint64(len(x))), "slice")
		if i.IsConst() {
			return &x[i.val]
		}
		return m.symElem(fr, []Value(x), i)
	case ByteSlice:
		m.boundsCheck(fr, i, m.lenOrZero(x), "slice")
		return BytePtr{obj: x.obj, off: m.tc.Bin(OpAdd, x.off, i)}
	case *Value:
		if x == nil {
			m.rtPanic(fr, "invalid memory address or nil pointer dereference")
		}
		switch a := (*x).(type) {
		case Array:
			m.boundsCheck(fr, i, Const(64, uint64(len(a))), "array")
			if i.IsConst() {
				return &a[i.val]
			}
			return m.symElem(fr, []Value(a), i)
		case *ByteObj:
			m.boundsCheck(fr, i, a.size, "array")
			return BytePtr{obj: a, off: i}
		}
		panic(engineErr{fmt.Sprintf("IndexAddr through pointer to %T", *x)})
	case BytePtr:
		// pointer to [N]byte inside a byte object
		return BytePtr{obj: x.obj, off: m.tc.Bin(OpAdd, x.off, i)}
	}
	panic(engineErr{fmt.Sprintf("IndexAddr on %T", x)})
}

func (m *Machine) symElem(fr *frame, s []Value, i *Term) Value {
	if len(s) > 0 {
		if _, ok := s[0].(*Term); ok && len(s) <= 64 {
			return SymElemPtr{s: s, idx: i}
		}
	}
	k := m.concretize(fr, i, "slice index")
	return &s[k]
}

func (m *Machine) indexVal(fr *frame, x Value, idx *Term, idxT types.Type) Value {
	i := m.idx64(idx, idxT)
	switch x := x.(type) {
	case Array:
		m.boundsCheck(fr, i, Const(64, uint64(len(x))), "array")
		if i.IsConst() {
			return m.copyVal(x[i.val])
		}
		return m.load(fr, nil, m.symElem(fr, []Value(x), i))
	case *ByteObj:
		m.boundsCheck(fr, i, x.size, "array")
		return x.get(m, i)
	case string:
		m.boundsCheck(fr, i, Const(64, uint64(len(x))), "string")
		if i.IsConst() {
			return Const(8, uint64(x[i.val]))
		}
		return m.strBytes(x).obj.get(m, i)
	case *SymStr:
		m.boundsCheck(fr, i, x.len, "string")
		return x.obj.get(m, m.tc.Bin(OpAdd, x.off, i))
	}
	panic(engineErr{fmt.Sprintf("Index on %T", x)})
}

func (m *Machine) optIdx(v Value, T ssa.Value) *Term {
	if v == nil {
		return nil
	}
	return m.idx64(v.(*Term), T.Type())
}

func (m *Machine) sliceOp(fr *frame, instr *ssa.Slice, x, lo, hi, max Value) Value {
	tc := m.tc
	l := m.optIdx(lo, instr.Low)
	h := m.optIdx(hi, instr.High)
	mx := m.optIdx(max, instr.Max)
	if l == nil {
		l = Const(64, 0)
	}
	check := func(cond *Term, format string, args ...any) {
		if !m.branch(cond) {
			m.rtPanic(fr, format, args...)
		}
	}
	switch x := x.(type) {
	case string, *SymStr:
		n := m.strLen(x)
		if h == nil {
			h = n
		}
		check(tc.Cmp(OpULe, h, n), "slice bounds out of range [:%s] with length %s", h, n)
		check(tc.Cmp(OpULe, l, h), "slice bounds out of range [%s:%s]", l, h)
		if s, ok := x.(string); ok && l.IsConst() && h.IsConst() {
			return s[l.val:h.val]
		}
		bs := m.strBytes(x)
		return m.strVal(&SymStr{obj: bs.obj, off: tc.Bin(OpAdd, bs.off, l), len: tc.Bin(OpSub, h, l)})
	case ByteSlice:
		cp := Const(64, 0)
		off := Const(64, 0)
		if x.obj != nil {
			cp, off = x.cap, x.off
		}
		if mx == nil {
			mx = cp
		} else {
			check(tc.Cmp(OpULe, mx, cp), "slice bounds out of range [::%s] with capacity %s", mx, cp)
		}
		if h == nil {
			h = m.lenOrZero(x)
		}
		check(tc.Cmp(OpULe, h, mx), "slice bounds out of range [:%s] with capacity %s", h, mx)
		check(tc.Cmp(OpULe, l, h), "slice bounds out of range [%s:%s]", l, h)
		if x.obj == nil {
			return ByteSlice{}
		}
		return ByteSlice{obj: x.obj, off: tc.Bin(OpAdd, off, l), len: tc.Bin(OpSub, h, l), cap: tc.Bin(OpSub, mx, l)}
	case Slice:
		n, cp := int64(len(x)), int64(cap(x))
		lc := m.concretizeBounded(fr, l, cp, "slice low")
		var hc, mc int64
		if h == nil {
			hc = n
		} else {
			hc = m.concretizeBounded(fr, h, cp, "slice high")
		}
		if mx == nil {
			mc = cp
		} else {
			mc = m.concretizeBounded(fr, mx, cp, "slice max")
		}
		if mc < 0 || mc > cp {
			m.rtPanic(fr, "slice bounds out of range [::%d] with capacity %d", mc, cp)
		}
		if hc < 0 || hc > mc {
			m.rtPanic(fr, "slice bounds out of range [:%d] with capacity %d", hc, mc)
		}
		if lc < 0 || lc > hc {
			m.rtPanic(fr, "slice bounds out of range [%d:%d]", lc, hc)
		}
		if x == nil {
			return Slice(nil)
		}
		return x[lc:hc:mc]
	case *Value:
		if x == nil {
			m.rtPanic(fr, "invalid memory address or nil pointer dereference")
		}
		switch a := (*x).(type) {
		case Array:
			return m.sliceOpInner(fr, Slice(a), l, h, mx)
		case *ByteObj:
			return m.sliceOpBytes(fr, ByteSlice{obj: a, off: Const(64, 0), len: a.size, cap: a.size}, l, h, mx)
		}
	case BytePtr:
		// pointer to [N]byte inside a byte object (from SliceToArrayPointer / unsafe)
		at := mustDeref(instr.X.Type()).Underlying().(*types.Array)
		n := Const(64, uint64(at.Len()))
		return m.sliceOpBytes(fr, ByteSlice{obj: x.obj, off: x.off, len: n, cap: n}, l, h, mx)
	}
	panic(engineErr{fmt.Sprintf("slice of %T", x)})
}

func (m *Machine) sliceOpBytes(fr *frame, x ByteSlice, l, h, mx *Term) Value {
	tc := m.tc
	check := func(cond *Term, format string, args ...any) {
		if !m.branch(cond) {
			m.rtPanic(fr, format, args...)
		}
	}
	if mx == nil {
		mx = x.cap
	} else {
		check(tc.Cmp(OpULe, mx, x.cap), "slice bounds out of range [::%s] with capacity %s", mx, x.cap)
	}
	if h == nil {
		h = x.len
	}
	check(tc.Cmp(OpULe, h, mx), "slice bounds out of range [:%s] with capacity %s", h, mx)
	check(tc.Cmp(OpULe, l, h), "slice bounds out of range [%s:%s]", l, h)
	return ByteSlice{obj: x.obj, off: tc.Bin(OpAdd, x.off, l), len: tc.Bin(OpSub, h, l), cap: tc.Bin(OpSub, mx, l)}
}

func (m *Machine) sliceOpInner(fr *frame, x Slice, l, h, mx *Term) Value {
	cp := int64(cap(x))
	lc := m.concretizeBounded(fr, l, cp, "slice low")
	hc, mc := int64(len(x)), cp
	if h != nil {
		hc = m.concretizeBounded(fr, h, cp, "slice high")
	}
	if mx != nil {
		mc = m.concretizeBounded(fr, mx, cp, "slice max")
	}
	if mc < 0 || mc > cp {
		m.rtPanic(fr, "slice bounds out of range [::%d] with capacity %d", mc, cp)
	}
	if hc < 0 || hc > mc {
		m.rtPanic(fr, "slice bounds out of range [:%d] with capacity %d", hc, mc)
	}
	if lc < 0 || lc > hc {
		m.rtPanic(fr, "slice bounds out of range [%d:%d]", lc, hc)
	}
	return x[lc:hc:mc]
}

// concretizeBounded makes t concrete; values outside [0, limit] are represented by limit+1.
func (m *Machine) concretizeBounded(fr *frame, t *Term, limit int64, what string) int64 {
	if t.IsConst() {
		return sx(t.val, 64)
	}
	for k := int64(0); k <= limit; k++ {
		if m.branch(m.tc.Eq(t, Const(64, uint64(k)))) {
			return k
		}
	}
	return limit + 1
}

func (m *Machine) makeSlice(fr *frame, t types.Type, lenV, capV Value) Value {
	tc := m.tc
	et := t.Underlying().(*types.Slice).Elem()
	ln := m.toW(lenV.(*Term), true, 64)
	cp := m.toW(capV.(*Term), true, 64)
	esz := uint64(m.p.sizes.Sizeof(et))
	if esz == 0 {
		esz = 1
	}
	limit := Const(64, maxAlloc/esz)
	if !m.branch(tc.Cmp(OpULe, ln, limit)) {
		m.rtPanic(fr, "makeslice: len out of range")
	}
	if !m.branch(tc.BAnd(tc.Cmp(OpULe, cp, limit), tc.Cmp(OpULe, ln, cp))) {
		m.rtPanic(fr, "makeslice: cap out of range")
	}
	if isByteType(et) {
		return ByteSlice{obj: m.newByteObj(cp), off: Const(64, 0), len: ln, cap: cp}
	}
	c := m.concretize(fr, cp, "make cap")
	l := m.concretize(fr, ln, "make len")
	if c > 1<<20 {
		m.cut(fmt.Sprintf("make of %d non-byte elements", c))
	}
	s := make(Slice, c)
	for i := range s {
		s[i] = m.zero(et)
	}
	return s[:l]
}

// ---------- maps, strings: lookup and range ----------

func (m *Machine) lookup(fr *frame, instr *ssa.Lookup, x, idx Value) Value {
	switch x := x.(type) {
	case *Map:
		var v Value
		e := m.mapFind(fr, x, instr.X.Type().Underlying().(*types.Map).Key(), idx)
		ok := e != nil
		if ok {
			v = m.copyVal(e.v)
		} else {
			v = m.zero(instr.X.Type().Underlying().(*types.Map).Elem())
		}
		if instr.CommaOk {
			return Tuple{v, BoolT(ok)}
		}
		return v
	case string:
		i := m.idx64(idx.(*Term), instr.Index.Type())
		m.boundsCheck(fr, i, Const(64, uint64(len(x))), "string")
		if i.IsConst() {
			return Const(8, uint64(x[i.val]))
		}
		bs := m.strBytes(x)
		return bs.obj.get(m, i)
	case *SymStr:
		i := m.idx64(idx.(*Term), instr.Index.Type())
		m.boundsCheck(fr, i, x.len, "string")
		return x.obj.get(m, m.tc.Bin(OpAdd, x.off, i))
	}
	panic(engineErr{fmt.Sprintf("lookup on %T", x)})
}

type iterator interface {
	next(m *Machine, fr *frame) Tuple
}

type mapIter struct {
	ents []*mapEntry
	i    int
}

func (it *mapIter) next(m *Machine, fr *frame) Tuple {
	for it.i < len(it.ents) {
		e := it.ents[it.i]
		it.i++
		if !e.dead {
			return Tuple{tTrue, e.k, m.copyVal(e.v)}
		}
	}
	return Tuple{tFalse, nil, nil}
}

type stringIter struct {
	s string
	i int
}

func (it *stringIter) next(m *Machine, fr *frame) Tuple {
	if it.i >= len(it.s) {
		return Tuple{tFalse, Const(64, 0), Const(32, 0)}
	}
	for j, r := range it.s[it.i:] {
		_ = j
		idx := it.i
		it.i += len(string(r))
		if r == 0xfffd {
			it.i = idx + 1
		}
		return Tuple{tTrue, Const(64, uint64(idx)), Const(32, uint64(r))}
	}
	return Tuple{tFalse, Const(64, 0), Const(32, 0)}
}

func (m *Machine) rangeIter(fr *frame, x Value) iterator {
	switch x := x.(type) {
	case *Map:
		if x == nil {
			return &mapIter{}
		}
		return &mapIter{ents: append([]*mapEntry(nil), x.order...)}
	case string:
		return &stringIter{s: x}
	case *SymStr:
		if s, ok := m.concreteStr(x); ok {
			return &stringIter{s: s}
		}
		panic(engineErr{"range over symbolic string"})
	}
	panic(engineErr{fmt.Sprintf("range over %T", x)})
}

// ---------- type assertions ----------

func (m *Machine) typeAssert(fr *frame, instr *ssa.TypeAssert, itf Iface) Value {
	var v Value
	errMsg := ""
	if itf.t == nil {
		errMsg = fmt.Sprintf("interface conversion: interface is nil, not %s", instr.AssertedType)
	} else if idst, ok := instr.AssertedType.Underlying().(*types.Interface); ok {
		v = itf
		if meth, _ := types.MissingMethod(itf.t, idst, true); meth != nil {
			errMsg = fmt.Sprintf("interface conversion: %v is not %v: missing method %s", itf.t, idst, meth.Name())
		}
	} else if types.Identical(itf.t, instr.AssertedType) {
		v = itf.v
	} else {
		errMsg = fmt.Sprintf("interface conversion: interface is %s, not %s", itf.t, instr.AssertedType)
	}
	if errMsg != "" {
		if !instr.CommaOk {
			panic(&targetPanic{v: Iface{t: m.p.runtimeErrorString, v: errMsg}, msg: errMsg, pos: m.where(fr)})
		}
		return Tuple{m.zero(instr.AssertedType), tFalse}
	}
	if instr.CommaOk {
		return Tuple{v, tTrue}
	}
	return v
}

// ---------- builtins ----------

func (m *Machine) callBuiltin(fr *frame, pos token.Pos, fn *ssa.Builtin, args []Value) Value {
	switch fn.Name() {
	case "append":
		if len(args) == 1 {
			return args[0]
		}
		switch s := args[0].(type) {
		case ByteSlice:
			switch src := args[1].(type) {
			case ByteSlice:
				return m.appendBytes(fr, s, src)
			case string, *SymStr:
				return m.appendBytes(fr, s, m.strBytes(src))
			}
		case Slice:
			src := args[1].(Slice)
			if len(src) == 0 {
				return s
			}
			if len(s)+len(src) <= cap(s) {
				r := s[:len(s)+len(src)]
				for i, e := range src {
					r[len(s)+i] = m.copyVal(e)
				}
				return r
			}
			// grow: new backing array (Go doubles; exact capacity is not observable except via cap())
			ncap := 2*cap(s) + len(src)
			r := make(Slice, len(s)+len(src), ncap)
			copy(r, s)
			for i, e := range src {
				r[len(s)+i] = m.copyVal(e)
			}
			et := fn.Type().(*types.Signature).Params().At(0).Type().Underlying().(*types.Slice).Elem()
			full := r[:ncap]
			for i := len(r); i < ncap; i++ {
				full[i] = m.zero(et)
			}
			return r
		}
		panic(engineErr{fmt.Sprintf("append(%T, %T)", args[0], args[1])})

	case "copy":
		switch dst := args[0].(type) {
		case ByteSlice:
			var src ByteSlice
			switch s := args[1].(type) {
			case ByteSlice:
				src = s
			case string, *SymStr:
				src = m.strBytes(s)
			default:
				panic(engineErr{fmt.Sprintf("copy(ByteSlice, %T)", args[1])})
			}
			return m.copyBytes(fr, dst, src)
		case Slice:
			src := args[1].(Slice)
			n := len(dst)
			if len(src) < n {
				n = len(src)
			}
			tmp := make([]Value, n)
			for i := 0; i < n; i++ {
				tmp[i] = m.copyVal(src[i])
			}
			for i := 0; i < n; i++ {
				m.storeInto(&dst[i], tmp[i])
			}
			return Const(64, uint64(n))
		}
		panic(engineErr{fmt.Sprintf("copy(%T, %T)", args[0], args[1])})

	case "clear":
		switch x := args[0].(type) {
		case *Map:
			if x != nil {
				for _, e := range x.order {
					e.dead = true
				}
				x.order, x.idx, x.nsym, x.live = nil, map[string]*mapEntry{}, 0, 0
			}
		case ByteSlice:
			if x.obj != nil {
				n := m.concretize(fr, x.len, "clear length")
				for i := int64(0); i < n; i++ {
					x.obj.set(m, m.tc.Bin(OpAdd, x.off, Const(64, uint64(i))), Const(8, 0))
				}
			}
		case Slice:
			et := fn.Type().(*types.Signature).Params().At(0).Type().Underlying().(*types.Slice).Elem()
			for i := range x {
				m.storeInto(&x[i], m.zero(et))
			}
		default:
			panic(engineErr{fmt.Sprintf("clear(%T)", x)})
		}
		return nil

	case "close":
		m.chanClose(fr, args[0])
		return nil

	case "delete":
		kt := fn.Type().(*types.Signature).Params().At(0).Type().Underlying().(*types.Map).Key()
		m.mapDelete(fr, args[0].(*Map), kt, args[1])
		return nil

	case "print", "println":
		return nil

	case "len":
		switch x := args[0].(type) {
		case string, *SymStr:
			return m.strLen(x)
		case Array:
			return Const(64, uint64(len(x)))
		case *ByteObj:
			return x.size
		case *Value:
			switch a := (*x).(type) {
			case Array:
				return Const(64, uint64(len(a)))
			case *ByteObj:
				return a.size
			}
		case Slice:
			return Const(64, uint64(len(x)))
		case ByteSlice:
			return m.lenOrZero(x)
		case *Map:
			return Const(64, uint64(x.length()))
		case *Chan:
			if x == nil {
				return Const(64, 0)
			}
			return Const(64, uint64(len(x.buf)))
		case BytePtr:
			at := mustDeref(fn.Type().(*types.Signature).Params().At(0).Type()).Underlying().(*types.Array)
			return Const(64, uint64(at.Len()))
		}
		panic(engineErr{fmt.Sprintf("len(%T)", args[0])})

	case "cap":
		switch x := args[0].(type) {
		case Array:
			return Const(64, uint64(len(x)))
		case *ByteObj:
			return x.size
		case *Value:
			switch a := (*x).(type) {
			case Array:
				return Const(64, uint64(len(a)))
			case *ByteObj:
				return a.size
			}
		case Slice:
			return Const(64, uint64(cap(x)))
		case ByteSlice:
			if x.obj == nil {
				return Const(64, 0)
			}
			return x.cap
		case *Chan:
			if x == nil {
				return Const(64, 0)
			}
			return Const(64, uint64(x.cap))
		}
		panic(engineErr{fmt.Sprintf("cap(%T)", args[0])})

	case "min", "max":
		T := fn.Type().(*types.Signature).Params().At(0).Type()
		r := args[0]
		for _, a := range args[1:] {
			op := token.LSS
			if fn.Name() == "max" {
				op = token.GTR
			}
			switch rv := r.(type) {
			case *Term:
				c := m.binop(fr, op, T, T, a, r).(*Term)
				r = m.tc.Ite(c, a.(*Term), rv)
			case float64:
				if fn.Name() == "min" {
					r = math.Min(rv, a.(float64))
				} else {
					r = math.Max(rv, a.(float64))
				}
			default:
				c := m.binop(fr, op, T, T, a, r).(*Term)
				if m.branch(c) {
					r = a
				}
			}
		}
		return r

	case "panic":
		panic(&targetPanic{v: args[0], msg: m.panicString(args[0]), pos: m.where(fr)})

	case "recover":
		return m.doRecover(fr)

	case "ssa:wrapnilchk":
		if isNilValue(args[0]) {
			recv, _ := args[1].(string)
			meth, _ := args[2].(string)
			m.rtPanic(fr, "value method %s.%s called using nil *%s pointer", recv, meth, recv)
		}
		return args[0]

	case "ssa:deferstack":
		return &fr.defers

	case "String": // unsafe.String
		return m.unsafeString(fr, args[0], args[1].(*Term))
	case "StringData":
		bs := m.strBytes(args[0])
		return BytePtr{obj: bs.obj, off: bs.off}
	case "Slice": // unsafe.Slice(ptr, len)
		n := m.toW(args[1].(*Term), true, 64)
		switch p := args[0].(type) {
		case BytePtr:
			if p.obj == nil {
				return ByteSlice{}
			}
			return ByteSlice{obj: p.obj, off: p.off, len: n, cap: n}
		case *Value:
			if p == nil {
				return m.zero(fn.Type().(*types.Signature).Results().At(0).Type())
			}
		}
		panic(engineErr{fmt.Sprintf("unsafe.Slice(%T)", args[0])})
	case "SliceData":
		switch s := args[0].(type) {
		case ByteSlice:
			if s.obj == nil {
				return (*Value)(nil)
			}
			return BytePtr{obj: s.obj, off: s.off}
		case Slice:
			if cap(s) == 0 {
				return (*Value)(nil)
			}
			return &s[:1][0]
		}
		panic(engineErr{fmt.Sprintf("unsafe.SliceData(%T)", args[0])})
	case "Add": // unsafe.Add(ptr, n)
		n := m.toW(args[1].(*Term), true, 64)
		switch p := args[0].(type) {
		case BytePtr:
			return BytePtr{obj: p.obj, off: m.tc.Bin(OpAdd, p.off, n)}
		}
		panic(engineErr{fmt.Sprintf("unsafe.Add(%T)", args[0])})
	}
	panic(engineErr{"unknown built-in: " + fn.Name()})
}

func (m *Machine) unsafeString(fr *frame, p Value, n *Term) Value {
	n = m.toW(n, true, 64)
	switch p := p.(type) {
	case BytePtr:
		if p.obj == nil {
			return ""
		}
		// unsafe.String aliases the bytes; callers must not mutate them. Snapshot.
		snap := p.obj.clone(m)
		snap.ro = true
		return m.strVal(&SymStr{obj: snap, off: p.off, len: n})
	case *Value:
		if p == nil {
			return ""
		}
	}
	panic(engineErr{fmt.Sprintf("unsafe.String(%T)", p)})
}

// ---------- byte-slice kernels ----------

// lenBound returns a concrete upper bound for a 64-bit length term if one is syntactically evident.
func (m *Machine) lenBound(t *Term) (int64, bool) {
	if t.IsConst() {
		return int64(t.val), true
	}
	return 0, false
}

// smallLen makes a length concrete or returns a concrete upper bound for unrolling.
// When the term is symbolic, the solver is asked for its maximum over the current path
// by forking on values up to copyBound.
func (m *Machine) copyBytes(fr *frame, dst, src ByteSlice) Value {
	tc := m.tc
	dl, sl := m.lenOrZero(dst), m.lenOrZero(src)
	// decide which length is the minimum (forks only when both orders are feasible): keeps
	// the copied length, and every offset derived from it, as simple as the shorter operand
	n := dl
	if m.branch(tc.Cmp(OpULt, sl, dl)) {
		n = sl
	}
	if n.IsConst() && n.val == 0 {
		return n
	}
	m.moveBytes(fr, dst.obj, dst.off, src.obj, src.off, n)
	return n
}

// moveBytes copies n bytes (memmove semantics) from src+soff to dst+doff.
func (m *Machine) moveBytes(fr *frame, dst *ByteObj, doff *Term, src *ByteObj, soff *Term, n *Term) {
	tc := m.tc
	if n.IsConst() {
		k := int(n.val)
		if k > 1<<20 {
			panic(engineErr{fmt.Sprintf("copy of %d bytes", k)})
		}
		// whole-object copy: share the array term instead of moving byte by byte
		if k >= 64 && dst != src && doff.IsConst() && doff.val == 0 && soff.IsConst() && soff.val == 0 &&
			dst.size.IsConst() && src.size.IsConst() && dst.size.val == uint64(k) && src.size.val == uint64(k) && !dst.ro {
			dst.assign(src)
			return
		}
		tmp := make([]*Term, k)
		for i := 0; i < k; i++ {
			tmp[i] = src.get(m, tc.Bin(OpAdd, soff, Const(64, uint64(i))))
		}
		for i := 0; i < k; i++ {
			dst.set(m, tc.Bin(OpAdd, doff, Const(64, uint64(i))), tmp[i])
		}
		return
	}
	// symbolic length into a fresh object from offset 0 of the source: share the source's array
	// (bytes beyond n are not addressable through the destination: callers give it capacity n)
	if dst != src && dst.base == nil && len(dst.ov) == 0 && !dst.ro && doff.IsConst() && doff.val == 0 && soff.IsConst() && soff.val == 0 {
		dst.base = src.fold(m)
		return
	}
	// symbolic length: find an upper bound by asking the solver for feasibility of n > B
	bound := m.copyBound
	if !m.branchNoFork(tc.Cmp(OpULe, n, Const(64, uint64(bound)))) {
		// n may exceed the unroll bound: concretize by case split
		k := m.concretize(fr, n, "copy length")
		m.moveBytes(fr, dst, doff, src, soff, Const(64, uint64(k)))
		return
	}
	tmp := make([]*Term, bound)
	for i := 0; i < bound; i++ {
		tmp[i] = src.get(m, tc.Bin(OpAdd, soff, Const(64, uint64(i))))
	}
	for i := 0; i < bound; i++ {
		di := tc.Bin(OpAdd, doff, Const(64, uint64(i)))
		old := dst.get(m, di)
		dst.set(m, di, tc.Ite(tc.Cmp(OpULt, Const(64, uint64(i)), n), tmp[i], old))
	}
}

func (m *Machine) appendBytes(fr *frame, s, src ByteSlice) ByteSlice {
	tc := m.tc
	sl, n := m.lenOrZero(s), m.lenOrZero(src)
	if n.IsConst() && n.val == 0 {
		return s
	}
	newLen := tc.Bin(OpAdd, sl, n)
	fits := tFalse
	if s.obj != nil {
		fits = tc.Cmp(OpULe, newLen, s.cap)
	}
	if m.branch(fits) {
		m.moveBytes(fr, s.obj, tc.Bin(OpAdd, s.off, sl), src.obj, src.off, n)
		return ByteSlice{obj: s.obj, off: s.off, len: newLen, cap: s.cap}
	}
	// grow: fresh object; capacity is 2*len+n (not observable except through cap())
	ncap := tc.Bin(OpAdd, tc.Bin(OpAdd, newLen, sl), Const(64, 8))
	if !n.IsConst() && s.obj == nil && src.off.IsConst() && src.off.val == 0 {
		ncap = newLen // the source array is shared (moveBytes): nothing beyond the length may be addressable
	}
	o := m.newByteObj(ncap)
	if s.obj != nil {
		m.moveBytes(fr, o, Const(64, 0), s.obj, s.off, sl)
	}
	m.moveBytes(fr, o, sl, src.obj, src.off, n)
	return ByteSlice{obj: o, off: Const(64, 0), len: newLen, cap: ncap}
}

// concLen concretizes the length of a byte slice for kernels that need a concrete trip count.
func (m *Machine) concLen(fr *frame, s ByteSlice, what string) int {
	return int(m.concretize(fr, m.lenOrZero(s), what))
}

func (m *Machine) byteAt(s ByteSlice, i int) *Term {
	return s.obj.get(m, m.tc.Bin(OpAdd, s.off, Const(64, uint64(i))))
}

// bytesEqual returns the term "a and b have equal contents".
func (m *Machine) bytesEqual(fr *frame, a, b ByteSlice) *Term {
	tc := m.tc
	al, bl := m.lenOrZero(a), m.lenOrZero(b)
	leq := tc.Eq(al, bl)
	if leq.IsFalse() {
		return tFalse
	}
	// unroll over whichever length is concrete; else concretize a's
	var n int
	switch {
	case al.IsConst():
		n = int(al.val)
	case bl.IsConst():
		n = int(bl.val)
	default:
		if !m.branch(leq) {
			return tFalse
		}
		n = m.concLen(fr, a, "bytes.Equal length")
		leq = tTrue
	}
	r := leq
	for i := 0; i < n; i++ {
		if r.IsFalse() {
			break
		}
		r = tc.BAnd(r, tc.Eq(m.byteAt(a, i), m.byteAt(b, i)))
	}
	return r
}

// bytesCompare returns a 64-bit term in {-1,0,1}: lexicographic comparison.
func (m *Machine) bytesCompare(fr *frame, a, b ByteSlice) *Term {
	tc := m.tc
	an := m.concLen(fr, a, "bytes.Compare length")
	bn := m.concLen(fr, b, "bytes.Compare length")
	n := an
	if bn < n {
		n = bn
	}
	neg, zero, pos := Const(64, ^uint64(0)), Const(64, 0), Const(64, 1)
	var r *Term
	switch {
	case an < bn:
		r = neg
	case an > bn:
		r = pos
	default:
		r = zero
	}
	for i := n - 1; i >= 0; i-- {
		x, y := m.byteAt(a, i), m.byteAt(b, i)
		r = tc.Ite(tc.Cmp(OpULt, x, y), neg, tc.Ite(tc.Cmp(OpULt, y, x), pos, r))
	}
	return r
}

func (m *Machine) indexByte(fr *frame, s ByteSlice, c *Term) *Term {
	n := m.concLen(fr, s, "IndexByte length")
	r := Const(64, ^uint64(0))
	for i := n - 1; i >= 0; i-- {
		r = m.tc.Ite(m.tc.Eq(m.byteAt(s, i), c), Const(64, uint64(i)), r)
	}
	return r
}

func describeBytes(m *Machine, s ByteSlice) string {
	if s.obj == nil {
		return "nil"
	}
	if !s.len.IsConst() {
		return "bytes[len " + s.len.String() + "]"
	}
	var sb strings.Builder
	for i := 0; i < int(s.len.val) && i < 16; i++ {
		sb.WriteString(m.byteAt(s, i).String() + " ")
	}
	return sb.String()
}

// decodeBytePtr recognises base+offset addresses produced by ptrToUintptr for byte objects
// (pointer arithmetic through uintptr, as in unsafe.Pointer(uintptr(p)+n)).
func (m *Machine) decodeBytePtr(t *Term) (BytePtr, bool) {
	var consts uint64
	var rest *Term
	var walk func(x *Term) bool
	walk = func(x *Term) bool {
		if x.IsConst() {
			consts += x.val
			return true
		}
		if x.op == OpAdd {
			return walk(x.args[0]) && walk(x.args[1])
		}
		if rest == nil {
			rest = x
		} else {
			rest = m.tc.Bin(OpAdd, rest, x)
		}
		return true
	}
	walk(t)
	for base, obj := range m.addrObjs {
		if consts >= base && consts-base < 1<<24 {
			off := Const(64, consts-base)
			if rest != nil {
				off = m.tc.Bin(OpAdd, off, rest)
			}
			return BytePtr{obj: obj, off: off}, true
		}
	}
	return BytePtr{}, false
}
