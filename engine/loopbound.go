package main

// Loop bounds for inductive-step harnesses: sym.LoopBound(fnSubstr, k, onCut)
// cuts a path at the (k+1)-th back edge to the outermost loop header of any
// function whose name contains fnSubstr, after running onCut (which asserts
// the representation invariant the harness assumed for its arbitrary
// pre-state, so that "the state after the back edge is again one of the
// assumed pre-states" is checked, not assumed). Inner loops run normally.

import (
	"strings"
	"sync"

	"golang.org/x/tools/go/ssa"
)

type loopBound struct {
	substr string
	k      int
	onCut  Value
}

var outerHeaderCache sync.Map // *ssa.Function -> *ssa.BasicBlock

// outerLoopHeader returns the loop header with the smallest index (the
// outermost, first loop of the function), or nil.
func outerLoopHeader(fn *ssa.Function) *ssa.BasicBlock {
	if v, ok := outerHeaderCache.Load(fn); ok {
		b, _ := v.(*ssa.BasicBlock)
		return b
	}
	var hdr *ssa.BasicBlock
	for _, b := range fn.Blocks {
		for _, p := range b.Preds {
			if p.Index >= b.Index {
				if hdr == nil || b.Index < hdr.Index {
					hdr = b
				}
			}
		}
	}
	outerHeaderCache.Store(fn, hdr)
	return hdr
}

func (m *Machine) checkLoopBound(fr *frame) {
	name := fr.fn.String()
	for _, lb := range m.loopBounds {
		if !strings.Contains(name, lb.substr) {
			continue
		}
		if fr.block != outerLoopHeader(fr.fn) {
			return
		}
		if fr.loopCount == nil {
			fr.loopCount = map[*ssa.BasicBlock]int{}
		}
		fr.loopCount[fr.block]++
		if fr.loopCount[fr.block] > lb.k {
			if !isNilValue(lb.onCut) {
				m.call(fr, 0, lb.onCut, nil)
			}
			m.hr.mu.Lock()
			m.hr.cuts["loop-cut "+lb.substr]++
			m.hr.mu.Unlock()
			panic(pathEnd{"loop-cut"})
		}
		return
	}
}
