package main

// Value representation. Derived in spirit from golang.org/x/tools/go/ssa/interp
// (BSD-style license, The Go Authors): "boxed" typed values, with these
// differences: every bool/integer is a *Term (possibly constant), byte arrays
// and byte slices live in ByteObj stores that support symbolic offsets and
// lengths, and strings may be symbolic.
//
//	bool, all integers      *Term
//	float32/float64         float64 (concrete only)
//	string                  string | *SymStr
//	*T                      *Value | BytePtr | SymElemPtr
//	struct                  Struct
//	[N]T                    Array | *ByteObj (T byte-sized unsigned)
//	[]T                     Slice | ByteSlice (T byte-sized unsigned)
//	map                     *Map
//	chan                    *Chan
//	interface               Iface
//	func                    *ssa.Function | *Closure | *ssa.Builtin
//	tuple                   Tuple

import (
	"fmt"
	"go/types"
	"sort"
	"strings"

	"golang.org/x/tools/go/ssa"
)

type Value any

type Struct []Value
type Array []Value
type Slice []Value
type Tuple []Value

type Iface struct {
	t types.Type
	v Value
}

type Closure struct {
	Fn  *ssa.Function
	Env []Value
}

// BytePtr points at a byte inside a ByteObj (also the representation of
// unsafe.Pointer values derived from byte slices).
type BytePtr struct {
	obj *ByteObj
	off *Term // 64-bit
}

// SymElemPtr is &s[idx] for a symbolic idx into a slice of scalar elements.
type SymElemPtr struct {
	s   []Value
	idx *Term
}

type ByteSlice struct {
	obj           *ByteObj // nil for the nil slice
	off, len, cap *Term    // 64-bit
}

type SymStr struct {
	obj      *ByteObj
	off, len *Term
}

// ByteObj is a byte-addressed store: base array (nil = all zero) plus an overlay
// of writes at concrete offsets.
type ByteObj struct {
	id   int
	base *Term
	ov   map[int64]*Term
	size *Term // allocation size (for diagnostics and bounds of array values)
	ro   bool
}

type mapEntry struct {
	k, v     Value
	ks       string // canonical key when concrete
	concrete bool
	dead     bool
}

// Map is insertion-ordered. Entries with fully concrete keys are indexed by a
// canonical string; entries whose key contains symbolic terms are found by
// forking on equality with each candidate.
type Map struct {
	order []*mapEntry
	idx   map[string]*mapEntry
	nsym  int
	live  int
}

type Chan struct {
	buf    []Value
	cap    int
	closed bool
	id     int
	// waiting receivers on an unbuffered channel (rendezvous)
	recvWaiting int
}

func (m *Machine) newByteObj(size *Term) *ByteObj {
	m.nextObj++
	return &ByteObj{id: m.nextObj, ov: map[int64]*Term{}, size: size}
}

func (o *ByteObj) clone(m *Machine) *ByteObj {
	n := m.newByteObj(o.size)
	n.base = o.base
	for k, v := range o.ov {
		n.ov[k] = v
	}
	return n
}

func (o *ByteObj) assign(src *ByteObj) {
	o.base = src.base
	o.ov = make(map[int64]*Term, len(src.ov))
	for k, v := range src.ov {
		o.ov[k] = v
	}
}

func (o *ByteObj) fold(m *Machine) *Term {
	if o.base == nil {
		o.base = m.tc.ArrZero()
	}
	if len(o.ov) > 0 {
		keys := make([]int64, 0, len(o.ov))
		for k := range o.ov {
			keys = append(keys, k)
		}
		sort.Slice(keys, func(i, j int) bool { return keys[i] < keys[j] })
		b := o.base
		for _, k := range keys {
			b = m.tc.Store(b, Const(64, uint64(k)), o.ov[k])
		}
		o.base = b
		o.ov = map[int64]*Term{}
	}
	return o.base
}

func (o *ByteObj) get(m *Machine, off *Term) *Term {
	if off.IsConst() {
		k := int64(off.val)
		if v, ok := o.ov[k]; ok {
			return v
		}
		if o.base == nil {
			return Const(8, 0)
		}
		return m.tc.Select(o.base, off)
	}
	return m.tc.Select(o.fold(m), off)
}

func (o *ByteObj) set(m *Machine, off *Term, v *Term) {
	if v.w != 8 {
		panic(engineErr{fmt.Sprintf("ByteObj.set: value width %d", v.w)})
	}
	if o.ro {
		panic(engineErr{"write to read-only byte object (string data)"})
	}
	if off.IsConst() {
		o.ov[int64(off.val)] = v
		return
	}
	o.base = m.tc.Store(o.fold(m), off, v)
}

func isByteType(t types.Type) bool {
	b, ok := t.Underlying().(*types.Basic)
	return ok && b.Kind() == types.Uint8
}

func intWidth(t types.Type) (w int, signed bool, ok bool) {
	b, isB := t.Underlying().(*types.Basic)
	if !isB {
		return 0, false, false
	}
	switch b.Kind() {
	case types.Bool, types.UntypedBool:
		return 0, false, true
	case types.Int8:
		return 8, true, true
	case types.Int16:
		return 16, true, true
	case types.Int32, types.UntypedRune:
		return 32, true, true
	case types.Int64, types.Int, types.UntypedInt:
		return 64, true, true
	case types.Uint8:
		return 8, false, true
	case types.Uint16:
		return 16, false, true
	case types.Uint32:
		return 32, false, true
	case types.Uint64, types.Uint, types.Uintptr:
		return 64, false, true
	}
	return 0, false, false
}

func isFloat(t types.Type) bool {
	b, ok := t.Underlying().(*types.Basic)
	return ok && b.Info()&types.IsFloat != 0
}

func isString(t types.Type) bool {
	b, ok := t.Underlying().(*types.Basic)
	return ok && b.Info()&types.IsString != 0
}

func (m *Machine) zero(t types.Type) Value {
	switch t := t.(type) {
	case *types.Basic:
		if t.Kind() == types.UntypedNil {
			panic(engineErr{"zero of untyped nil"})
		}
		if w, _, ok := intWidth(t); ok {
			return Const(w, 0)
		}
		switch {
		case t.Info()&types.IsFloat != 0:
			return float64(0)
		case t.Info()&types.IsString != 0:
			return ""
		case t.Kind() == types.UnsafePointer:
			return (*Value)(nil)
		case t.Info()&types.IsComplex != 0:
			return complex128(0)
		}
		panic(engineErr{fmt.Sprintf("zero: basic type %v", t)})
	case *types.Pointer:
		return (*Value)(nil)
	case *types.Array:
		if isByteType(t.Elem()) {
			return m.newByteObj(Const(64, uint64(t.Len())))
		}
		a := make(Array, t.Len())
		for i := range a {
			a[i] = m.zero(t.Elem())
		}
		return a
	case *types.Named:
		return m.zero(t.Underlying())
	case *types.Alias:
		return m.zero(types.Unalias(t))
	case *types.Interface:
		return Iface{}
	case *types.Slice:
		if isByteType(t.Elem()) {
			return ByteSlice{}
		}
		return Slice(nil)
	case *types.Struct:
		s := make(Struct, t.NumFields())
		for i := range s {
			s[i] = m.zero(t.Field(i).Type())
		}
		return s
	case *types.Tuple:
		if t.Len() == 1 {
			return m.zero(t.At(0).Type())
		}
		s := make(Tuple, t.Len())
		for i := range s {
			s[i] = m.zero(t.At(i).Type())
		}
		return s
	case *types.Chan:
		return (*Chan)(nil)
	case *types.Map:
		return (*Map)(nil)
	case *types.Signature:
		return (*ssa.Function)(nil)
	}
	panic(engineErr{fmt.Sprintf("zero: unexpected type %T %v", t, t)})
}

// copyVal returns a copy of v with value semantics for aggregates.
func (m *Machine) copyVal(v Value) Value {
	switch v := v.(type) {
	case Struct:
		n := make(Struct, len(v))
		for i, f := range v {
			n[i] = m.copyVal(f)
		}
		return n
	case Array:
		n := make(Array, len(v))
		for i, f := range v {
			n[i] = m.copyVal(f)
		}
		return n
	case *ByteObj:
		if v == nil {
			return v
		}
		return v.clone(m)
	case poison:
		if m.inInit == 0 {
			panic(engineErr{"use of a package-level variable whose initializer the engine could not execute: " + v.why})
		}
	}
	return v
}

// storeInto writes v into the cell *addr in place (preserving the identity of
// nested aggregates so that interior pointers stay valid).
func (m *Machine) storeInto(addr *Value, v Value) {
	if _, bad := v.(poison); bad {
		*addr = v
		return
	}
	switch cur := (*addr).(type) {
	case Struct:
		rhs, ok := v.(Struct)
		if !ok || len(rhs) != len(cur) {
			panic(engineErr{fmt.Sprintf("store: struct shape mismatch %T", v)})
		}
		for i := range cur {
			m.storeInto(&cur[i], rhs[i])
		}
		return
	case Array:
		rhs, ok := v.(Array)
		if !ok || len(rhs) != len(cur) {
			panic(engineErr{fmt.Sprintf("store: array shape mismatch %T", v)})
		}
		for i := range cur {
			m.storeInto(&cur[i], rhs[i])
		}
		return
	case *ByteObj:
		rhs, ok := v.(*ByteObj)
		if !ok {
			panic(engineErr{fmt.Sprintf("store: byte array shape mismatch %T", v)})
		}
		if cur != rhs {
			cur.assign(rhs)
		}
		return
	}
	*addr = v
}

// ---------- canonical map keys ----------

func (m *Machine) keyString(v Value) string {
	var sb strings.Builder
	m.writeKey(&sb, v)
	return sb.String()
}

func (m *Machine) writeKey(sb *strings.Builder, v Value) {
	switch v := v.(type) {
	case *Term:
		if !v.IsConst() {
			panic(engineErr{"symbolic map key"})
		}
		fmt.Fprintf(sb, "i%d:%d;", v.w, v.val)
	case string:
		fmt.Fprintf(sb, "s%d:%s;", len(v), v)
	case *SymStr:
		s, ok := m.concreteStr(v)
		if !ok {
			panic(engineErr{"symbolic string as map key"})
		}
		fmt.Fprintf(sb, "s%d:%s;", len(s), s)
	case float64:
		fmt.Fprintf(sb, "f%v;", v)
	case *Value:
		fmt.Fprintf(sb, "p%p;", v)
	case Struct:
		sb.WriteString("{")
		for _, f := range v {
			m.writeKey(sb, f)
		}
		sb.WriteString("}")
	case Array:
		sb.WriteString("[")
		for _, f := range v {
			m.writeKey(sb, f)
		}
		sb.WriteString("]")
	case *ByteObj:
		sb.WriteString("B[")
		n := int64(v.size.val)
		for i := int64(0); i < n; i++ {
			b := v.get(m, Const(64, uint64(i)))
			if !b.IsConst() {
				panic(engineErr{"symbolic byte array as map key"})
			}
			fmt.Fprintf(sb, "%02x", b.val)
		}
		sb.WriteString("]")
	case Iface:
		if v.t == nil {
			sb.WriteString("nil;")
		} else {
			fmt.Fprintf(sb, "I<%s>", v.t.String())
			m.writeKey(sb, v.v)
		}
	case *Map:
		fmt.Fprintf(sb, "m%p;", v)
	case *Chan:
		fmt.Fprintf(sb, "c%p;", v)
	case *ssa.Function:
		fmt.Fprintf(sb, "fn%p;", v)
	case *Closure:
		fmt.Fprintf(sb, "cl%p;", v)
	case BytePtr:
		if !v.off.IsConst() {
			panic(engineErr{"symbolic byte pointer as map key"})
		}
		fmt.Fprintf(sb, "bp%d:%d;", v.obj.id, v.off.val)
	default:
		panic(engineErr{fmt.Sprintf("unhashable map key %T", v)})
	}
}

func newMap() *Map { return &Map{idx: map[string]*mapEntry{}} }

// tryKeyString returns the canonical key string if v is fully concrete.
func (m *Machine) tryKeyString(v Value) (ks string, ok bool) {
	defer func() {
		if r := recover(); r != nil {
			if _, is := r.(engineErr); is {
				ok = false
				return
			}
			panic(r)
		}
	}()
	return m.keyString(v), true
}

// mapFind locates the entry for key k, forking on symbolic equality where needed.
func (m *Machine) mapFind(fr *frame, mp *Map, kt types.Type, k Value) *mapEntry {
	if mp == nil {
		return nil
	}
	ks, conc := m.tryKeyString(k)
	if conc {
		if e, ok := mp.idx[ks]; ok && !e.dead {
			return e
		}
		if mp.nsym == 0 {
			return nil
		}
	}
	for _, e := range mp.order {
		if e.dead || (conc && e.concrete) {
			continue
		}
		if m.branch(m.equals(fr, kt, e.k, k)) {
			return e
		}
	}
	return nil
}

func (m *Machine) mapInsert(fr *frame, mp *Map, kt types.Type, k, v Value) {
	if e := m.mapFind(fr, mp, kt, k); e != nil {
		e.v = v
		return
	}
	e := &mapEntry{k: k, v: v}
	if ks, ok := m.tryKeyString(k); ok {
		e.ks, e.concrete = ks, true
		mp.idx[ks] = e
	} else {
		mp.nsym++
	}
	mp.order = append(mp.order, e)
	mp.live++
}

func (m *Machine) mapDelete(fr *frame, mp *Map, kt types.Type, k Value) {
	e := m.mapFind(fr, mp, kt, k)
	if e == nil {
		return
	}
	e.dead = true
	mp.live--
	if e.concrete {
		delete(mp.idx, e.ks)
	} else {
		mp.nsym--
	}
}

func (mp *Map) length() int {
	if mp == nil {
		return 0
	}
	return mp.live
}

// ---------- strings ----------

// concreteStr returns the Go string for s if every byte and the length are concrete.
func (m *Machine) concreteStr(s *SymStr) (string, bool) {
	if !s.len.IsConst() || !s.off.IsConst() {
		return "", false
	}
	n := int(s.len.val)
	b := make([]byte, n)
	for i := 0; i < n; i++ {
		t := s.obj.get(m, Const(64, s.off.val+uint64(i)))
		if !t.IsConst() {
			return "", false
		}
		b[i] = byte(t.val)
	}
	return string(b), true
}

// strVal normalises a string value: concrete SymStr become Go strings.
func (m *Machine) strVal(v Value) Value {
	if s, ok := v.(*SymStr); ok {
		if g, ok := m.concreteStr(s); ok {
			return g
		}
	}
	return v
}

func (m *Machine) strLen(v Value) *Term {
	switch v := v.(type) {
	case string:
		return Const(64, uint64(len(v)))
	case *SymStr:
		return v.len
	}
	panic(engineErr{fmt.Sprintf("strLen of %T", v)})
}

// strBytes returns a ByteSlice view of a string (read-only use).
func (m *Machine) strBytes(v Value) ByteSlice {
	switch v := v.(type) {
	case string:
		o := m.newByteObj(Const(64, uint64(len(v))))
		for i := 0; i < len(v); i++ {
			o.ov[int64(i)] = Const(8, uint64(v[i]))
		}
		n := Const(64, uint64(len(v)))
		return ByteSlice{obj: o, off: Const(64, 0), len: n, cap: n}
	case *SymStr:
		return ByteSlice{obj: v.obj, off: v.off, len: v.len, cap: v.len}
	}
	panic(engineErr{fmt.Sprintf("strBytes of %T", v)})
}

func isNilValue(v Value) bool {
	switch v := v.(type) {
	case *Value:
		return v == nil
	case Slice:
		return v == nil
	case ByteSlice:
		return v.obj == nil
	case *Map:
		return v == nil
	case *Chan:
		return v == nil
	case Iface:
		return v.t == nil
	case *ssa.Function:
		return v == nil
	case *Closure:
		return v == nil
	case *ssa.Builtin:
		return v == nil
	case BytePtr:
		return v.obj == nil
	case nil:
		return true
	}
	return false
}

func describe(v Value) string {
	switch v := v.(type) {
	case *Term:
		return v.String()
	case string:
		return fmt.Sprintf("%q", v)
	case Iface:
		if v.t == nil {
			return "nil-iface"
		}
		return fmt.Sprintf("iface<%s>", v.t)
	}
	return fmt.Sprintf("%T", v)
}
