package main

// Native models: the environment of the interpreted code. Every entry is part
// of the trusted base and is listed in evidence under "natives".

import (
	"fmt"
	"go/types"
	"hash/crc32"
	"math"
	"math/bits"
	"strings"

	"golang.org/x/tools/go/ssa"
)

type nativeFn func(m *Machine, fr *frame, args []Value) Value

type errRec struct {
	msg   string
	cause Value // Iface or nil
	marks []Value
}

const symPkgSuffix = "internal/verifsym"

func (p *Program) native(fn *ssa.Function) nativeFn {
	if v, ok := p.nativeCache.Load(fn); ok {
		if v == nil {
			return nil
		}
		return v.(nativeFn)
	}
	nf := p.resolveNative(fn)
	if nf == nil {
		p.nativeCache.Store(fn, nil)
	} else {
		p.nativeCache.Store(fn, nf)
	}
	return nf
}

func fnPkgPath(fn *ssa.Function) string {
	if fn.Pkg != nil {
		return fn.Pkg.Pkg.Path()
	}
	if o := fn.Origin(); o != nil && o.Pkg != nil {
		return o.Pkg.Pkg.Path()
	}
	if fn.Object() != nil && fn.Object().Pkg() != nil {
		return fn.Object().Pkg().Path()
	}
	return ""
}

func (p *Program) resolveNative(fn *ssa.Function) nativeFn {
	name := fn.String()
	if o := fn.Origin(); o != nil {
		name = o.String()
	}
	if nf, ok := nativeTable[name]; ok {
		return nf
	}
	path := fnPkgPath(fn)
	switch {
	case strings.HasSuffix(path, symPkgSuffix):
		nm := fn.Name()
		if o := fn.Origin(); o != nil {
			nm = o.Name()
		}
		if nf, ok := symNatives[nm]; ok {
			return nf
		}
		return nil // helpers written in Go (cmpcheck.go etc.) are interpreted
	case path == "github.com/cockroachdb/errors" && fn.Signature.Recv() == nil:
		return crdbErrorsNative(fn)
	case path == "github.com/cockroachdb/errors/oserror":
		return nil
	case path == "github.com/cockroachdb/redact" || strings.HasPrefix(path, "github.com/cockroachdb/redact/"):
		return redactNative(fn)
	case path == "log":
		return func(m *Machine, fr *frame, args []Value) Value { return m.zeroResult(fn) }
	case path == "fmt" && fn.Signature.Recv() == nil:
		return fmtNative(fn)
	}
	if fn.Blocks == nil && fn.Synthetic == "" {
		// body-less function without a model
		return func(m *Machine, fr *frame, args []Value) Value {
			panic(engineErr{"no model for body-less function " + name})
		}
	}
	return nil
}

func (p *Program) noInit(path string) bool {
	switch path {
	case "runtime", "os", "syscall", "reflect", "time", "internal/cpu", "internal/godebug", "sync", "sync/atomic",
		"internal/poll", "internal/testlog", "runtime/debug", "runtime/pprof", "runtime/trace", "net", "os/signal",
		"github.com/prometheus/client_golang/prometheus", "log", "internal/reflectlite", "unicode",
		"github.com/cockroachdb/errors", "github.com/cockroachdb/redact", "fmt", "testing", "hash/crc32",
		"github.com/cockroachdb/pebble/internal/invariants":
		return true
	}
	if strings.HasPrefix(path, "github.com/cockroachdb/errors/") && path != "github.com/cockroachdb/errors/oserror" {
		return true
	}
	if strings.HasPrefix(path, "google.golang.org/") || strings.HasPrefix(path, "github.com/gogo/") ||
		strings.HasPrefix(path, "github.com/prometheus/") || strings.HasPrefix(path, "github.com/getsentry/") {
		return true
	}
	return false
}

func term(v Value) *Term { return v.(*Term) }

func nop(m *Machine, fr *frame, args []Value) Value { return nil }

var nativeTable map[string]nativeFn

var anyType = types.NewInterfaceType(nil, nil)

// syncMap returns the contents of the sync.Map at recv (created on first use).
func (m *Machine) syncMap(recv Value) *Map {
	p := recv.(*Value)
	if m.syncMaps == nil {
		m.syncMaps = map[*Value]*Map{}
	}
	mp := m.syncMaps[p]
	if mp == nil {
		mp = newMap()
		m.syncMaps[p] = mp
	}
	return mp
}

func init() {
	nativeTable = map[string]nativeFn{
		// ---- runtime ----
		"runtime.Gosched":      func(m *Machine, fr *frame, a []Value) Value { m.yield(fr); return nil },
		"runtime.KeepAlive":    nop,
		"runtime.SetFinalizer": nop,
		"runtime.GC":           nop,
		"runtime.Callers":      func(m *Machine, fr *frame, a []Value) Value { return Const(64, 0) },
		"runtime.NumCPU":       func(m *Machine, fr *frame, a []Value) Value { return Const(64, 16) },
		"runtime.GOMAXPROCS":   func(m *Machine, fr *frame, a []Value) Value { return Const(64, 16) },
		"runtime.NumGoroutine": func(m *Machine, fr *frame, a []Value) Value { return Const(64, 1) },
		"runtime.Caller": func(m *Machine, fr *frame, a []Value) Value {
			return Tuple{Const(64, 0), "", Const(64, 0), tFalse}
		},
		"runtime/debug.SetPanicOnFault": func(m *Machine, fr *frame, a []Value) Value { return tFalse },
		"os.Getenv":                     func(m *Machine, fr *frame, a []Value) Value { return "" },
		"os.Getpid":                     func(m *Machine, fr *frame, a []Value) Value { return Const(64, 4242) },
		"os.runtime_args":               func(m *Machine, fr *frame, a []Value) Value { return Slice(nil) },

		// ---- time (opaque, concrete zero) ----
		"time.Now":   func(m *Machine, fr *frame, a []Value) Value { return m.zero(fr.fn.Signature.Results().At(0).Type()) },
		"time.Since": func(m *Machine, fr *frame, a []Value) Value { return Const(64, 0) },
		"time.Until": func(m *Machine, fr *frame, a []Value) Value { return Const(64, 0) },
		"time.Sleep": func(m *Machine, fr *frame, a []Value) Value { m.yield(fr); return nil },
		"(time.Time).Sub": func(m *Machine, fr *frame, a []Value) Value { return Const(64, 0) },
		"github.com/cockroachdb/crlib/crtime.NowMono": func(m *Machine, fr *frame, a []Value) Value { return Const(64, 1) },
		"(github.com/cockroachdb/crlib/crtime.Mono).Elapsed": func(m *Machine, fr *frame, a []Value) Value {
			return Const(64, 0)
		},

		// ---- internal/bytealg ----
		"internal/bytealg.Compare": func(m *Machine, fr *frame, a []Value) Value {
			return m.bytesCompare(fr, a[0].(ByteSlice), a[1].(ByteSlice))
		},
		"internal/bytealg.CompareString": func(m *Machine, fr *frame, a []Value) Value {
			return m.bytesCompare(fr, m.strBytes(a[0]), m.strBytes(a[1]))
		},
		"bytes.Compare": func(m *Machine, fr *frame, a []Value) Value {
			return m.bytesCompare(fr, a[0].(ByteSlice), a[1].(ByteSlice))
		},
		"bytes.Equal": func(m *Machine, fr *frame, a []Value) Value {
			return m.bytesEqual(fr, a[0].(ByteSlice), a[1].(ByteSlice))
		},
		"internal/bytealg.Equal": func(m *Machine, fr *frame, a []Value) Value {
			return m.bytesEqual(fr, a[0].(ByteSlice), a[1].(ByteSlice))
		},
		"internal/bytealg.IndexByte": func(m *Machine, fr *frame, a []Value) Value {
			return m.indexByte(fr, a[0].(ByteSlice), term(a[1]))
		},
		"internal/bytealg.IndexByteString": func(m *Machine, fr *frame, a []Value) Value {
			return m.indexByte(fr, m.strBytes(a[0]), term(a[1]))
		},
		"internal/bytealg.LastIndexByte": func(m *Machine, fr *frame, a []Value) Value {
			return m.lastIndexByte(fr, a[0].(ByteSlice), term(a[1]))
		},
		"internal/bytealg.LastIndexByteString": func(m *Machine, fr *frame, a []Value) Value {
			return m.lastIndexByte(fr, m.strBytes(a[0]), term(a[1]))
		},
		"internal/bytealg.Count": func(m *Machine, fr *frame, a []Value) Value {
			return m.countByte(fr, a[0].(ByteSlice), term(a[1]))
		},
		"internal/bytealg.CountString": func(m *Machine, fr *frame, a []Value) Value {
			return m.countByte(fr, m.strBytes(a[0]), term(a[1]))
		},
		"internal/bytealg.MakeNoZero": func(m *Machine, fr *frame, a []Value) Value {
			n := term(a[0])
			return ByteSlice{obj: m.newByteObj(n), off: Const(64, 0), len: n, cap: n}
		},
		"github.com/cockroachdb/crlib/crbytes.CommonPrefix": func(m *Machine, fr *frame, a []Value) Value {
			return m.commonPrefix(fr, a[0].(ByteSlice), a[1].(ByteSlice))
		},

		// ---- math/bits ----
		"math/bits.Len64":           func(m *Machine, fr *frame, a []Value) Value { return m.bitsLen(term(a[0])) },
		"math/bits.Len32":           func(m *Machine, fr *frame, a []Value) Value { return m.bitsLen(term(a[0])) },
		"math/bits.Len16":           func(m *Machine, fr *frame, a []Value) Value { return m.bitsLen(term(a[0])) },
		"math/bits.Len8":            func(m *Machine, fr *frame, a []Value) Value { return m.bitsLen(term(a[0])) },
		"math/bits.Len":             func(m *Machine, fr *frame, a []Value) Value { return m.bitsLen(term(a[0])) },
		"math/bits.LeadingZeros64":  func(m *Machine, fr *frame, a []Value) Value { return m.tc.Bin(OpSub, Const(64, 64), m.bitsLen(term(a[0]))) },
		"math/bits.LeadingZeros32":  func(m *Machine, fr *frame, a []Value) Value { return m.tc.Bin(OpSub, Const(64, 32), m.bitsLen(term(a[0]))) },
		"math/bits.LeadingZeros16":  func(m *Machine, fr *frame, a []Value) Value { return m.tc.Bin(OpSub, Const(64, 16), m.bitsLen(term(a[0]))) },
		"math/bits.LeadingZeros8":   func(m *Machine, fr *frame, a []Value) Value { return m.tc.Bin(OpSub, Const(64, 8), m.bitsLen(term(a[0]))) },
		"math/bits.LeadingZeros":    func(m *Machine, fr *frame, a []Value) Value { return m.tc.Bin(OpSub, Const(64, 64), m.bitsLen(term(a[0]))) },
		"math/bits.TrailingZeros64": func(m *Machine, fr *frame, a []Value) Value { return m.bitsTZ(term(a[0])) },
		"math/bits.TrailingZeros32": func(m *Machine, fr *frame, a []Value) Value { return m.bitsTZ(term(a[0])) },
		"math/bits.TrailingZeros16": func(m *Machine, fr *frame, a []Value) Value { return m.bitsTZ(term(a[0])) },
		"math/bits.TrailingZeros8":  func(m *Machine, fr *frame, a []Value) Value { return m.bitsTZ(term(a[0])) },
		"math/bits.TrailingZeros":   func(m *Machine, fr *frame, a []Value) Value { return m.bitsTZ(term(a[0])) },
		"math/bits.OnesCount64":     func(m *Machine, fr *frame, a []Value) Value { return m.bitsOnes(term(a[0])) },
		"math/bits.OnesCount32":     func(m *Machine, fr *frame, a []Value) Value { return m.bitsOnes(term(a[0])) },
		"math/bits.OnesCount16":     func(m *Machine, fr *frame, a []Value) Value { return m.bitsOnes(term(a[0])) },
		"math/bits.OnesCount8":      func(m *Machine, fr *frame, a []Value) Value { return m.bitsOnes(term(a[0])) },
		"math/bits.OnesCount":       func(m *Machine, fr *frame, a []Value) Value { return m.bitsOnes(term(a[0])) },
		"math/bits.Mul64": func(m *Machine, fr *frame, a []Value) Value {
			x, y := term(a[0]), term(a[1])
			if x.IsConst() && y.IsConst() {
				hi, lo := bits.Mul64(x.val, y.val)
				return Tuple{Const(64, hi), Const(64, lo)}
			}
			p := m.tc.Bin(OpMul, m.tc.ZExt(x, 128), m.tc.ZExt(y, 128))
			return Tuple{m.tc.Extract(p, 127, 64), m.tc.Extract(p, 63, 0)}
		},
		"math.Float64bits":     func(m *Machine, fr *frame, a []Value) Value { return Const(64, math.Float64bits(a[0].(float64))) },
		"math.Float64frombits": func(m *Machine, fr *frame, a []Value) Value { return math.Float64frombits(m.mustConst(a[0], "Float64frombits")) },
		"math.Float32bits":     func(m *Machine, fr *frame, a []Value) Value { return Const(32, uint64(math.Float32bits(float32(a[0].(float64))))) },
		"math.Float32frombits": func(m *Machine, fr *frame, a []Value) Value {
			return float64(math.Float32frombits(uint32(m.mustConst(a[0], "Float32frombits"))))
		},
		"math.Log":   func(m *Machine, fr *frame, a []Value) Value { return math.Log(a[0].(float64)) },
		"math.Log2":  func(m *Machine, fr *frame, a []Value) Value { return math.Log2(a[0].(float64)) },
		"math.Exp":   func(m *Machine, fr *frame, a []Value) Value { return math.Exp(a[0].(float64)) },
		"math.Pow":   func(m *Machine, fr *frame, a []Value) Value { return math.Pow(a[0].(float64), a[1].(float64)) },
		"math.Sqrt":  func(m *Machine, fr *frame, a []Value) Value { return math.Sqrt(a[0].(float64)) },
		"math.Floor": func(m *Machine, fr *frame, a []Value) Value { return math.Floor(a[0].(float64)) },
		"math.Ceil":  func(m *Machine, fr *frame, a []Value) Value { return math.Ceil(a[0].(float64)) },
		"math.Round": func(m *Machine, fr *frame, a []Value) Value { return math.Round(a[0].(float64)) },
		"math.Abs":   func(m *Machine, fr *frame, a []Value) Value { return math.Abs(a[0].(float64)) },

		// ---- sync (sequential model; the scheduler overrides in concurrent mode) ----
		"(*sync.Mutex).Lock":      func(m *Machine, fr *frame, a []Value) Value { m.mutexLock(fr, a[0], false); return nil },
		"(*sync.Mutex).Unlock":    func(m *Machine, fr *frame, a []Value) Value { m.mutexUnlock(fr, a[0], false); return nil },
		"(*sync.Mutex).TryLock":   func(m *Machine, fr *frame, a []Value) Value { return BoolT(m.mutexTryLock(fr, a[0])) },
		"(*sync.RWMutex).Lock":    func(m *Machine, fr *frame, a []Value) Value { m.mutexLock(fr, a[0], false); return nil },
		"(*sync.RWMutex).Unlock":  func(m *Machine, fr *frame, a []Value) Value { m.mutexUnlock(fr, a[0], false); return nil },
		"(*sync.RWMutex).RLock":   func(m *Machine, fr *frame, a []Value) Value { m.mutexLock(fr, a[0], true); return nil },
		"(*sync.RWMutex).RUnlock": func(m *Machine, fr *frame, a []Value) Value { m.mutexUnlock(fr, a[0], true); return nil },
		"(*sync.Pool).Get": func(m *Machine, fr *frame, a []Value) Value {
			p := a[0].(*Value)
			st := (*p).(Struct)
			newFn := st[len(st)-1]
			if isNilValue(newFn) {
				return Iface{}
			}
			return m.call(fr, 0, newFn, nil)
		},
		"(*sync.Pool).Put":        nop,
		// sync.Map as a plain map keyed by the receiver (no concurrency semantics beyond atomic steps)
		"(*sync.Map).Load": func(m *Machine, fr *frame, a []Value) Value {
			if e := m.mapFind(fr, m.syncMap(a[0]), anyType, a[1]); e != nil {
				return Tuple{e.v, tTrue}
			}
			return Tuple{Iface{}, tFalse}
		},
		"(*sync.Map).Store": func(m *Machine, fr *frame, a []Value) Value {
			m.mapInsert(fr, m.syncMap(a[0]), anyType, a[1], a[2])
			return nil
		},
		"(*sync.Map).LoadOrStore": func(m *Machine, fr *frame, a []Value) Value {
			mp := m.syncMap(a[0])
			if e := m.mapFind(fr, mp, anyType, a[1]); e != nil {
				return Tuple{e.v, tTrue}
			}
			m.mapInsert(fr, mp, anyType, a[1], a[2])
			return Tuple{a[2], tFalse}
		},
		"(*sync.Map).LoadAndDelete": func(m *Machine, fr *frame, a []Value) Value {
			mp := m.syncMap(a[0])
			if e := m.mapFind(fr, mp, anyType, a[1]); e != nil {
				v := e.v
				m.mapDelete(fr, mp, anyType, a[1])
				return Tuple{v, tTrue}
			}
			return Tuple{Iface{}, tFalse}
		},
		"(*sync.Map).Delete": func(m *Machine, fr *frame, a []Value) Value {
			m.mapDelete(fr, m.syncMap(a[0]), anyType, a[1])
			return nil
		},
		"(*sync.Map).Range": func(m *Machine, fr *frame, a []Value) Value {
			mp := m.syncMap(a[0])
			for _, e := range append([]*mapEntry(nil), mp.order...) {
				if e.dead {
					continue
				}
				if !m.branch(term(m.call(fr, 0, a[1], []Value{e.k, e.v}))) {
					break
				}
			}
			return nil
		},
		"(*sync.WaitGroup).Add":   func(m *Machine, fr *frame, a []Value) Value { m.wgAdd(fr, a[0], term(a[1])); return nil },
		"(*sync.WaitGroup).Done":  func(m *Machine, fr *frame, a []Value) Value { m.wgAdd(fr, a[0], Const(64, ^uint64(0))); return nil },
		"(*sync.WaitGroup).Wait":  func(m *Machine, fr *frame, a []Value) Value { m.wgWait(fr, a[0]); return nil },
		"(*sync.Cond).Wait":       func(m *Machine, fr *frame, a []Value) Value { m.condWait(fr, a[0]); return nil },
		"(*sync.Cond).Signal":     func(m *Machine, fr *frame, a []Value) Value { m.condSignal(fr, a[0], false); return nil },
		"(*sync.Cond).Broadcast":  func(m *Machine, fr *frame, a []Value) Value { m.condSignal(fr, a[0], true); return nil },
		"sync.runtime_registerPoolCleanup": nop,
		"sync.runtime_notifyListCheck":     nop,
		"sync.throw":                       func(m *Machine, fr *frame, a []Value) Value { m.rtPanic(fr, "sync: %v", a[0]); return nil },
		"sync.fatal":                       func(m *Machine, fr *frame, a []Value) Value { m.rtPanic(fr, "sync: %v", a[0]); return nil },

		// ---- sync/atomic ----
		"sync/atomic.LoadInt32":    atomicLoad,
		"sync/atomic.LoadInt64":    atomicLoad,
		"sync/atomic.LoadUint32":   atomicLoad,
		"sync/atomic.LoadUint64":   atomicLoad,
		"sync/atomic.LoadUintptr":  atomicLoad,
		"sync/atomic.LoadPointer":  atomicLoad,
		"sync/atomic.StoreInt32":   atomicStore,
		"sync/atomic.StoreInt64":   atomicStore,
		"sync/atomic.StoreUint32":  atomicStore,
		"sync/atomic.StoreUint64":  atomicStore,
		"sync/atomic.StoreUintptr": atomicStore,
		"sync/atomic.StorePointer": atomicStore,
		"sync/atomic.AddInt32":     atomicAdd,
		"sync/atomic.AddInt64":     atomicAdd,
		"sync/atomic.AddUint32":    atomicAdd,
		"sync/atomic.AddUint64":    atomicAdd,
		"sync/atomic.AddUintptr":   atomicAdd,
		"sync/atomic.SwapInt32":    atomicSwap,
		"sync/atomic.SwapInt64":    atomicSwap,
		"sync/atomic.SwapUint32":   atomicSwap,
		"sync/atomic.SwapUint64":   atomicSwap,
		"sync/atomic.SwapUintptr":  atomicSwap,
		"sync/atomic.SwapPointer":  atomicSwap,
		"sync/atomic.CompareAndSwapInt32":   atomicCAS,
		"sync/atomic.CompareAndSwapInt64":   atomicCAS,
		"sync/atomic.CompareAndSwapUint32":  atomicCAS,
		"sync/atomic.CompareAndSwapUint64":  atomicCAS,
		"sync/atomic.CompareAndSwapUintptr": atomicCAS,
		"sync/atomic.CompareAndSwapPointer": atomicCAS,
		"sync/atomic.AndInt32":  atomicBit(OpAnd),
		"sync/atomic.AndUint32": atomicBit(OpAnd),
		"sync/atomic.AndInt64":  atomicBit(OpAnd),
		"sync/atomic.AndUint64": atomicBit(OpAnd),
		"sync/atomic.OrInt32":   atomicBit(OpOr),
		"sync/atomic.OrUint32":  atomicBit(OpOr),
		"sync/atomic.OrInt64":   atomicBit(OpOr),
		"sync/atomic.OrUint64":  atomicBit(OpOr),
		"(*sync/atomic.Value).Load": func(m *Machine, fr *frame, a []Value) Value {
			m.visible(fr, "atomic.Value.Load")
			st := (*a[0].(*Value)).(Struct)
			if v, ok := st[0].(Iface); ok {
				return v
			}
			return Iface{}
		},
		"(*sync/atomic.Value).Store": func(m *Machine, fr *frame, a []Value) Value {
			m.visible(fr, "atomic.Value.Store")
			st := (*a[0].(*Value)).(Struct)
			st[0] = a[1]
			return nil
		},

		// ---- errors (std) ----
		"errors.Is":     func(m *Machine, fr *frame, a []Value) Value { return BoolT(m.errIs(fr, a[0].(Iface), a[1].(Iface))) },
		"errors.Unwrap": func(m *Machine, fr *frame, a []Value) Value { return m.errUnwrap(fr, a[0].(Iface)) },
		"errors.As":     func(m *Machine, fr *frame, a []Value) Value { return BoolT(m.errAs(fr, a[0].(Iface), a[1].(Iface))) },
		"errors.Join": func(m *Machine, fr *frame, a []Value) Value {
			var first Value
			for _, e := range a[0].(Slice) {
				if !isNilValue(e) {
					if first == nil {
						first = e
					}
				}
			}
			if first == nil {
				return Iface{}
			}
			return m.newErr(fr, "joined", first, nil)
		},
		"github.com/cockroachdb/errors/oserror.IsNotExist": func(m *Machine, fr *frame, a []Value) Value {
			return BoolT(m.errIsGlobal(fr, a[0].(Iface), "github.com/cockroachdb/errors/oserror", "ErrNotExist") ||
				m.errIsGlobal(fr, a[0].(Iface), "io/fs", "ErrNotExist"))
		},
		"github.com/cockroachdb/errors/oserror.IsExist": func(m *Machine, fr *frame, a []Value) Value {
			return BoolT(m.errIsGlobal(fr, a[0].(Iface), "github.com/cockroachdb/errors/oserror", "ErrExist"))
		},

		// ---- checksums ----
		"hash/crc32.MakeTable": func(m *Machine, fr *frame, a []Value) Value {
			poly := uint32(m.mustConst(a[0], "crc32 polynomial"))
			return m.crcTable(poly)
		},
		"hash/crc32.Update": func(m *Machine, fr *frame, a []Value) Value {
			return m.crcUpdate(fr, term(a[0]), a[1], a[2].(ByteSlice))
		},
		"hash/crc32.Checksum": func(m *Machine, fr *frame, a []Value) Value {
			return m.crcUpdate(fr, Const(32, 0), a[1], a[0].(ByteSlice))
		},
		"github.com/cespare/xxhash/v2.Sum64": func(m *Machine, fr *frame, a []Value) Value {
			return m.hashUF(fr, "xxhash64", 64, a[0].(ByteSlice))
		},

		// pprof.Do(ctx, labels, f): profiling labels are irrelevant; call f(ctx)
		"runtime/pprof.Do": func(m *Machine, fr *frame, a []Value) Value {
			m.call(fr, 0, a[2], []Value{a[0]})
			return nil
		},
		"runtime/pprof.Labels": func(m *Machine, fr *frame, a []Value) Value {
			return m.zero(fr.fn.Signature.Results().At(0).Type())
		},

		// Iterator.clearForReuse zeroes the tail of the struct through a byte-array view
		// (unsafe.Add + Offsetof): done field by field here
		"(*github.com/cockroachdb/pebble.Iterator).clearForReuse": func(m *Machine, fr *frame, a []Value) Value {
			st := fr.fn.Signature.Recv().Type().(*types.Pointer).Elem().Underlying().(*types.Struct)
			p := a[0].(*Value)
			cur := (*p).(Struct)
			from := -1
			for i := 0; i < st.NumFields(); i++ {
				if st.Field(i).Name() == "clearForReuseBoundary" {
					from = i
				}
			}
			if from < 0 {
				panic(engineErr{"Iterator.clearForReuseBoundary not found"})
			}
			for i := from; i < st.NumFields(); i++ {
				cur[i] = m.zero(st.Field(i).Type())
			}
			return nil
		},

		// maps.clone (linknamed to the runtime): a shallow copy
		"maps.clone": func(m *Machine, fr *frame, a []Value) Value {
			it := a[0].(Iface)
			src, _ := it.v.(*Map)
			if src == nil {
				return it
			}
			dst := newMap()
			for _, e := range src.order {
				if e.dead {
					continue
				}
				ne := &mapEntry{k: e.k, v: m.copyVal(e.v), ks: e.ks, concrete: e.concrete}
				dst.order = append(dst.order, ne)
				if ne.concrete {
					dst.idx[ne.ks] = ne
				} else {
					dst.nsym++
				}
				dst.live++
			}
			return Iface{t: it.t, v: dst}
		},

		// math/rand/v2.Uint32 (skiplist tower heights): a symbolic choice between a value that gives
		// height 1 and one that gives height 2 with arenaskl's probability table
		"math/rand/v2.Uint32": func(m *Machine, fr *frame, a []Value) Value {
			if m.fixRandom || m.chooseAmong(fr, 2, "rand.Uint32") == 0 {
				return Const(32, 0xFFFFFFFF)
			}
			return Const(32, 0x40000000)
		},

		// math/rand/v2.Uint64 (seeds batchskl's PCG): a fixed seed; tower heights then follow the
		// real PCG code deterministically
		"math/rand/v2.Uint64": func(m *Machine, fr *frame, a []Value) Value { return Const(64, 0x9E3779B97F4A7C15) },

		// bitflip.CheckSliceForBitFlip: a diagnostic run after a checksum mismatch was already
		// detected (it only decorates the error message); quadratic in the data length. Stubbed:
		// "no single bit flip found".
		"github.com/cockroachdb/pebble/internal/bitflip.CheckSliceForBitFlip": func(m *Machine, fr *frame, a []Value) Value {
			return Tuple{tFalse, Const(64, 0), Const(64, 0)}
		},

		// rawalloc.New(len, cap): uninitialised bytes (modelled as zero, like make)
		"github.com/cockroachdb/pebble/internal/rawalloc.New": func(m *Machine, fr *frame, a []Value) Value {
			ln, cp := term(a[0]), term(a[1])
			return ByteSlice{obj: m.newByteObj(cp), off: Const(64, 0), len: ln, cap: cp}
		},

		// ---- invariants (disabled-build behaviour is in the source; these are the runtime bits) ----
		"github.com/cockroachdb/pebble/internal/invariants.SetFinalizer": nop,
	}
}

func (m *Machine) mustConst(v Value, what string) uint64 {
	t := v.(*Term)
	if !t.IsConst() {
		panic(engineErr{"symbolic value where the model needs a constant: " + what})
	}
	return t.val
}

// ---------- byte kernels ----------

func (m *Machine) lastIndexByte(fr *frame, s ByteSlice, c *Term) *Term {
	n := m.concLen(fr, s, "LastIndexByte length")
	r := Const(64, ^uint64(0))
	for i := 0; i < n; i++ {
		r = m.tc.Ite(m.tc.Eq(m.byteAt(s, i), c), Const(64, uint64(i)), r)
	}
	return r
}

func (m *Machine) countByte(fr *frame, s ByteSlice, c *Term) *Term {
	n := m.concLen(fr, s, "Count length")
	r := Const(64, 0)
	for i := 0; i < n; i++ {
		r = m.tc.Bin(OpAdd, r, m.tc.BoolToBV(m.tc.Eq(m.byteAt(s, i), c), 64))
	}
	return r
}

func (m *Machine) commonPrefix(fr *frame, a, b ByteSlice) *Term {
	an := m.concLen(fr, a, "CommonPrefix length")
	bn := m.concLen(fr, b, "CommonPrefix length")
	n := an
	if bn < n {
		n = bn
	}
	r := Const(64, uint64(n))
	for i := n - 1; i >= 0; i-- {
		r = m.tc.Ite(m.tc.Eq(m.byteAt(a, i), m.byteAt(b, i)), r, Const(64, uint64(i)))
	}
	return r
}

// ---------- math/bits ----------

func (m *Machine) bitsLen(x *Term) *Term {
	if x.IsConst() {
		return Const(64, uint64(bits.Len64(x.val)))
	}
	r := Const(64, 0)
	for i := 0; i < x.w; i++ {
		// highest set bit wins: build from low to high so the outermost test is the top bit
		bit := m.tc.Eq(m.tc.Extract(x, i, i), Const(1, 1))
		r = m.tc.Ite(bit, Const(64, uint64(i+1)), r)
	}
	return r
}

func (m *Machine) bitsTZ(x *Term) *Term {
	if x.IsConst() {
		if x.val == 0 {
			return Const(64, uint64(x.w))
		}
		return Const(64, uint64(bits.TrailingZeros64(x.val)))
	}
	r := Const(64, uint64(x.w))
	for i := x.w - 1; i >= 0; i-- {
		bit := m.tc.Eq(m.tc.Extract(x, i, i), Const(1, 1))
		r = m.tc.Ite(bit, Const(64, uint64(i)), r)
	}
	return r
}

func (m *Machine) bitsOnes(x *Term) *Term {
	if x.IsConst() {
		return Const(64, uint64(bits.OnesCount64(x.val)))
	}
	r := Const(64, 0)
	for i := 0; i < x.w; i++ {
		r = m.tc.Bin(OpAdd, r, m.tc.ZExt(m.tc.Extract(x, i, i), 64))
	}
	return r
}

// ---------- atomics ----------

func atomicLoad(m *Machine, fr *frame, a []Value) Value {
	m.visible(fr, "atomic.Load")
	return m.load(fr.caller, mustDeref(fr.fn.Signature.Params().At(0).Type()), a[0])
}

func atomicStore(m *Machine, fr *frame, a []Value) Value {
	m.visible(fr, "atomic.Store")
	m.store(fr.caller, mustDeref(fr.fn.Signature.Params().At(0).Type()), a[0], a[1])
	return nil
}

func atomicAdd(m *Machine, fr *frame, a []Value) Value {
	m.visible(fr, "atomic.Add")
	T := mustDeref(fr.fn.Signature.Params().At(0).Type())
	old := m.load(fr.caller, T, a[0]).(*Term)
	nv := m.tc.Bin(OpAdd, old, term(a[1]))
	m.store(fr.caller, T, a[0], nv)
	return nv
}

func atomicSwap(m *Machine, fr *frame, a []Value) Value {
	m.visible(fr, "atomic.Swap")
	T := mustDeref(fr.fn.Signature.Params().At(0).Type())
	old := m.load(fr.caller, T, a[0])
	m.store(fr.caller, T, a[0], a[1])
	return old
}

func atomicCAS(m *Machine, fr *frame, a []Value) Value {
	m.visible(fr, "atomic.CAS")
	T := mustDeref(fr.fn.Signature.Params().At(0).Type())
	old := m.load(fr.caller, T, a[0])
	eq := m.equals(fr.caller, T, old, a[1])
	if m.branch(eq) {
		m.store(fr.caller, T, a[0], a[2])
		return tTrue
	}
	return tFalse
}

func atomicBit(op Op) nativeFn {
	return func(m *Machine, fr *frame, a []Value) Value {
		m.visible(fr, "atomic.AndOr")
		T := mustDeref(fr.fn.Signature.Params().At(0).Type())
		old := m.load(fr.caller, T, a[0]).(*Term)
		m.store(fr.caller, T, a[0], m.tc.Bin(op, old, term(a[1])))
		return old
	}
}

// ---------- checksums ----------

func (m *Machine) crcTable(poly uint32) Value {
	tab := crc32.MakeTable(poly)
	arr := make(Array, 256)
	for i := range arr {
		arr[i] = Const(32, uint64(tab[i]))
	}
	cell := new(Value)
	*cell = arr
	return cell
}

func (m *Machine) crcUpdate(fr *frame, crc *Term, tabV Value, data ByteSlice) Value {
	if dl := m.lenOrZero(data); !dl.IsConst() {
		// symbolic length: small lengths are case-split (checksum = function of the bytes);
		// longer data gets an uninterpreted function of (memory, offset, length) - a sound
		// over-approximation that keeps only "same memory, same range => same checksum"
		cb := m.concBound
		if m.crcBound > 0 {
			cb = m.crcBound - 1
		}
		if !m.branch(m.tc.Cmp(OpULe, dl, Const(64, uint64(cb)))) {
			return m.tc.UF("crc32_range", 32, crc, data.obj.fold(m), data.off, dl)
		}
	}
	n := m.concLen(fr, data, "crc32 data length")
	concrete := crc.IsConst()
	buf := make([]byte, n)
	bs := make([]*Term, n)
	for i := 0; i < n; i++ {
		bs[i] = m.byteAt(data, i)
		if bs[i].IsConst() {
			buf[i] = byte(bs[i].val)
		} else {
			concrete = false
		}
	}
	if concrete {
		var tab crc32.Table
		arr := (*tabV.(*Value)).(Array)
		for i := range tab {
			tab[i] = uint32(arr[i].(*Term).val)
		}
		return Const(32, uint64(crc32.Update(uint32(crc.val), &tab, buf)))
	}
	if n == 0 {
		return crc
	}
	args := append([]*Term{crc}, bs...)
	return m.tc.UF(fmt.Sprintf("crc32_n%d", n), 32, args...)
}

func (m *Machine) hashUF(fr *frame, name string, w int, data ByteSlice) Value {
	n := m.concLen(fr, data, name+" data length")
	bs := make([]*Term, n)
	for i := 0; i < n; i++ {
		bs[i] = m.byteAt(data, i)
	}
	if n == 0 {
		return m.tc.Var(name+"_empty", w)
	}
	return m.tc.UF(fmt.Sprintf("%s_n%d", name, n), w, bs...)
}

// ---------- error model ----------

func (m *Machine) errorStringType() types.Type {
	return m.p.errorStringPtr
}

// newErr creates an error value of dynamic type *errors.errorString with engine-side metadata.
func (m *Machine) newErr(fr *frame, msg string, cause Value, marks []Value) Value {
	cell := new(Value)
	*cell = Struct{msg}
	m.errInfo[cell] = &errRec{msg: msg, cause: cause, marks: marks}
	return Iface{t: m.errorStringType(), v: cell}
}

func (m *Machine) errRecOf(e Iface) *errRec {
	if p, ok := e.v.(*Value); ok {
		return m.errInfo[p]
	}
	return nil
}

func (m *Machine) ifaceIdentical(fr *frame, a, b Iface) bool {
	if a.t == nil || b.t == nil {
		return a.t == nil && b.t == nil
	}
	if !types.Identical(a.t, b.t) || !types.Comparable(a.t) {
		return false
	}
	return m.branch(m.equals(fr, a.t, a.v, b.v))
}

func (m *Machine) errUnwrap(fr *frame, e Iface) Value {
	if e.t == nil {
		return Iface{}
	}
	if rec := m.errRecOf(e); rec != nil {
		if rec.cause == nil {
			return Iface{}
		}
		return rec.cause
	}
	for _, name := range []string{"Unwrap", "Cause"} {
		if fn := m.methodByName(e.t, name); fn != nil && fn.Signature.Results().Len() == 1 && fn.Signature.Params().Len() == 0 {
			if _, ok := fn.Signature.Results().At(0).Type().Underlying().(*types.Interface); ok {
				r := m.call(fr, 0, fn, []Value{e.v})
				if ri, ok := r.(Iface); ok {
					return ri
				}
			}
		}
	}
	return Iface{}
}

func (m *Machine) methodByName(t types.Type, name string) *ssa.Function {
	ms := m.p.prog.MethodSets.MethodSet(t)
	for i := 0; i < ms.Len(); i++ {
		sel := ms.At(i)
		if sel.Obj().Name() == name {
			return m.p.prog.MethodValue(sel)
		}
	}
	return nil
}

func (m *Machine) errIs(fr *frame, err, target Iface) bool {
	if target.t == nil {
		return err.t == nil
	}
	for depth := 0; err.t != nil && depth < 50; depth++ {
		if m.ifaceIdentical(fr, err, target) {
			return true
		}
		if rec := m.errRecOf(err); rec != nil {
			for _, mk := range rec.marks {
				if m.errIs(fr, mk.(Iface), target) {
					return true
				}
			}
		} else if fn := m.methodByName(err.t, "Is"); fn != nil && fn.Signature.Params().Len() == 1 {
			if r, ok := m.call(fr, 0, fn, []Value{err.v, target}).(*Term); ok && m.branch(r) {
				return true
			}
		}
		next, _ := m.errUnwrap(fr, err).(Iface)
		err = next
	}
	return false
}

func (m *Machine) errIsGlobal(fr *frame, err Iface, pkgPath, name string) bool {
	pkg := m.p.prog.ImportedPackage(pkgPath)
	if pkg == nil {
		return false
	}
	g, ok := pkg.Members[name].(*ssa.Global)
	if !ok {
		return false
	}
	target, ok := (*m.globalAddr(g)).(Iface)
	if !ok {
		return false
	}
	return m.errIs(fr, err, target)
}

func (m *Machine) errAs(fr *frame, err Iface, target Iface) bool {
	// target is a non-nil pointer to a variable of some type T
	pt, ok := target.t.Underlying().(*types.Pointer)
	if !ok {
		panic(engineErr{"errors.As: target is not a pointer"})
	}
	T := pt.Elem()
	for depth := 0; err.t != nil && depth < 50; depth++ {
		if _, isIface := T.Underlying().(*types.Interface); isIface {
			if meth, _ := types.MissingMethod(err.t, T.Underlying().(*types.Interface), true); meth == nil {
				m.store(fr, T, target.v, err)
				return true
			}
		} else if types.Identical(err.t, T) {
			m.store(fr, T, target.v, err.v)
			return true
		}
		next, _ := m.errUnwrap(fr, err).(Iface)
		err = next
	}
	return false
}

func (m *Machine) errMsg(fr *frame, e Iface) string {
	if e.t == nil {
		return "<nil>"
	}
	if rec := m.errRecOf(e); rec != nil {
		return rec.msg
	}
	return "error(" + e.t.String() + ")"
}

// crdbErrorsNative models github.com/cockroachdb/errors constructors by signature shape.
func crdbErrorsNative(fn *ssa.Function) nativeFn {
	name := fn.Name()
	sig := fn.Signature
	switch name {
	case "Is":
		return func(m *Machine, fr *frame, a []Value) Value { return BoolT(m.errIs(fr, a[0].(Iface), a[1].(Iface))) }
	case "IsAny":
		return func(m *Machine, fr *frame, a []Value) Value {
			for _, t := range a[1].(Slice) {
				if m.errIs(fr, a[0].(Iface), t.(Iface)) {
					return tTrue
				}
			}
			return tFalse
		}
	case "HasType", "HasInterface", "If":
		return nil
	case "As":
		return func(m *Machine, fr *frame, a []Value) Value { return BoolT(m.errAs(fr, a[0].(Iface), a[1].(Iface))) }
	case "Mark":
		return func(m *Machine, fr *frame, a []Value) Value {
			e := a[0].(Iface)
			if e.t == nil {
				return Iface{}
			}
			return m.newErr(fr, m.errMsg(fr, e), e, []Value{a[1]})
		}
	case "UnwrapOnce", "Unwrap":
		return func(m *Machine, fr *frame, a []Value) Value { return m.errUnwrap(fr, a[0].(Iface)) }
	case "UnwrapAll", "Cause":
		return func(m *Machine, fr *frame, a []Value) Value {
			e := a[0].(Iface)
			for i := 0; i < 50; i++ {
				n, _ := m.errUnwrap(fr, e).(Iface)
				if n.t == nil {
					break
				}
				e = n
			}
			return e
		}
	case "CombineErrors":
		return func(m *Machine, fr *frame, a []Value) Value {
			e0, e1 := a[0].(Iface), a[1].(Iface)
			if e0.t == nil {
				return e1
			}
			if e1.t == nil {
				return e0
			}
			return m.newErr(fr, m.errMsg(fr, e0), e0, nil)
		}
	case "Safe", "Redact":
		return func(m *Machine, fr *frame, a []Value) Value { return a[0] }
	case "Join":
		return nativeTable["errors.Join"]
	}
	// constructors: result is a single error
	if sig.Results().Len() != 1 || sig.Results().At(0).Type().String() != "error" {
		return nil
	}
	firstIsErr := sig.Params().Len() > 0 && sig.Params().At(0).Type().String() == "error"
	return func(m *Machine, fr *frame, a []Value) Value {
		if firstIsErr {
			e := a[0].(Iface)
			if e.t == nil {
				return Iface{}
			}
			return m.newErr(fr, m.errMsg(fr, e), e, nil)
		}
		msg := name
		var cause Value
		for _, x := range a {
			if s, ok := x.(string); ok && msg == name {
				msg = s
			}
			if sl, ok := x.(Slice); ok {
				for _, e := range sl {
					if ei, ok := e.(Iface); ok && ei.t != nil && m.isErrorType(ei.t) && cause == nil {
						cause = ei
					}
				}
			}
		}
		return m.newErr(fr, msg, cause, nil)
	}
}

func (m *Machine) isErrorType(t types.Type) bool {
	return types.Implements(t, m.p.errorIface)
}

func redactNative(fn *ssa.Function) nativeFn {
	return func(m *Machine, fr *frame, a []Value) Value {
		res := fn.Signature.Results()
		if res.Len() == 1 && isString(res.At(0).Type()) {
			return "‹redacted›"
		}
		return m.zeroResult(fn)
	}
}

// ---------- fmt ----------

func fmtNative(fn *ssa.Function) nativeFn {
	switch fn.Name() {
	case "Sprintf":
		return func(m *Machine, fr *frame, a []Value) Value {
			return m.sprintf(fr, a[0], a[1].(Slice))
		}
	case "Sprint", "Sprintln":
		return func(m *Machine, fr *frame, a []Value) Value {
			args := m.goArgs(fr, a[0].(Slice))
			if fn.Name() == "Sprintln" {
				return fmt.Sprintln(args...)
			}
			return fmt.Sprint(args...)
		}
	case "Errorf":
		return func(m *Machine, fr *frame, a []Value) Value {
			msg, _ := m.sprintf(fr, a[0], a[1].(Slice)).(string)
			var cause Value
			for _, e := range a[1].(Slice) {
				if ei, ok := e.(Iface); ok && ei.t != nil && m.isErrorType(ei.t) && cause == nil {
					cause = ei
				}
			}
			return m.newErr(fr, msg, cause, nil)
		}
	case "Fprintf", "Fprint", "Fprintln", "Printf", "Print", "Println":
		return func(m *Machine, fr *frame, a []Value) Value {
			return Tuple{Const(64, 0), Iface{}}
		}
	case "Sscanf":
		return func(m *Machine, fr *frame, a []Value) Value {
			panic(engineErr{"fmt.Sscanf is not modelled"})
		}
	}
	return nil
}

func (m *Machine) sprintf(fr *frame, format Value, args Slice) Value {
	f, ok := m.strVal(format).(string)
	if !ok {
		return "<symbolic format>"
	}
	return fmt.Sprintf(f, m.goArgs(fr, args)...)
}

type opaque string

func (o opaque) String() string { return string(o) }

// goArgs converts interpreter values to Go values for formatting.
func (m *Machine) goArgs(fr *frame, args Slice) []any {
	out := make([]any, len(args))
	for i, a := range args {
		out[i] = m.goArg(fr, a)
	}
	return out
}

func (m *Machine) goArg(fr *frame, a Value) any {
	it, ok := a.(Iface)
	if !ok {
		return opaque(fmt.Sprintf("<%T>", a))
	}
	if it.t == nil {
		return nil
	}
	switch v := it.v.(type) {
	case *Term:
		if !v.IsConst() {
			return opaque("<sym>")
		}
		w, signed, _ := intWidth(it.t)
		if w == 0 {
			return v.val != 0
		}
		// named integer types with a String method print through it in Go; keep the number
		if signed {
			return sx(v.val, w)
		}
		switch w {
		case 8:
			return uint8(v.val)
		case 16:
			return uint16(v.val)
		case 32:
			return uint32(v.val)
		}
		return v.val
	case string:
		return v
	case *SymStr:
		if s, ok := m.concreteStr(v); ok {
			return s
		}
		return opaque("<symstr>")
	case float64:
		return v
	case ByteSlice:
		if v.obj == nil {
			return []byte(nil)
		}
		if !v.len.IsConst() {
			return opaque("<symbytes>")
		}
		b := make([]byte, v.len.val)
		for i := range b {
			t := m.byteAt(v, i)
			if !t.IsConst() {
				return opaque("<symbytes>")
			}
			b[i] = byte(t.val)
		}
		return b
	}
	if m.isErrorType(it.t) {
		return fmt.Errorf("%s", m.errMsg(fr, it))
	}
	return opaque("<" + it.t.String() + ">")
}
