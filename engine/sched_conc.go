package main

// Concurrent mode: interpreter threads are goroutines that hand a baton around;
// exactly one runs at a time. At every visible operation the running thread
// yields to the scheduler, whose choice of the next thread is a symbolic,
// forked decision (bounded by a preemption bound).

import (
	"fmt"
	"go/token"
	"strings"

	"golang.org/x/tools/go/ssa"
)

type thread struct {
	id        int
	resume    chan bool // true = run, false = abort
	done      bool
	blocked   func() bool
	why       string
	signalled bool
	yielded   bool
	started   bool
	fn        Value
	args      []Value
	name      string
}

type schedEvent struct {
	t     *thread
	kind  int // 0 yield/blocked, 1 done, 2 panic
	panic any
}

type threadAbort struct{}

type scheduler struct {
	threads     []*thread
	cur         *thread
	events      chan schedEvent
	preemptions int
	maxPreempt  int
	steps       int
	maxSteps    int
	log         []string
}

func (p *Program) concurrent(fn *ssa.Function) bool {
	return strings.Contains(fn.Name(), "_Conc")
}

func (m *Machine) visible(fr *frame, what string) {
	s := m.sched
	if s == nil || m.inInit > 0 || m.atomicSection > 0 {
		return
	}
	s.steps++
	if s.steps > s.maxSteps {
		panic(pathEnd{"step-budget"})
	}
	me := s.cur
	me.why = what
	m.parkAndWait(me)
}

func (m *Machine) yield(fr *frame) {
	s := m.sched
	if s == nil {
		return
	}
	me := s.cur
	me.yielded = true
	me.why = "Gosched"
	s.steps++
	if s.steps > s.maxSteps {
		panic(pathEnd{"step-budget"})
	}
	m.parkAndWait(me)
}

func (m *Machine) block(fr *frame, why string, cond func() bool) {
	s := m.sched
	if s == nil {
		panic(engineErr{"operation would block forever in sequential mode: " + why})
	}
	me := s.cur
	me.blocked = cond
	me.why = why
	m.parkAndWait(me)
	me.blocked = nil
}

// parkAndWait hands the baton to the scheduler and waits to be resumed.
func (m *Machine) parkAndWait(me *thread) {
	m.sched.events <- schedEvent{t: me}
	if !<-me.resume {
		panic(threadAbort{})
	}
}

func (m *Machine) spawn(fr *frame, instr *ssa.Go, fn Value, args []Value) {
	s := m.sched
	if s == nil {
		panic(engineErr{"go statement in sequential mode (name the harness *_Conc*)"})
	}
	t := &thread{id: len(s.threads), resume: make(chan bool), fn: fn, args: args}
	switch f := fn.(type) {
	case *ssa.Function:
		t.name = f.Name()
	case *Closure:
		t.name = f.Fn.Name()
	}
	s.threads = append(s.threads, t)
	m.startThread(t)
}

func (m *Machine) startThread(t *thread) {
	s := m.sched
	go func() {
		if !<-t.resume {
			s.events <- schedEvent{t: t, kind: 1}
			return
		}
		defer func() {
			r := recover()
			if r == nil {
				s.events <- schedEvent{t: t, kind: 1}
				return
			}
			if _, ok := r.(threadAbort); ok {
				s.events <- schedEvent{t: t, kind: 1}
				return
			}
			s.events <- schedEvent{t: t, kind: 2, panic: r}
		}()
		m.call(nil, token.NoPos, t.fn, t.args)
	}()
}

func (s *scheduler) enabled(t *thread) bool {
	if t.done {
		return false
	}
	if t.blocked != nil {
		return t.blocked()
	}
	return true
}

func (m *Machine) runConcurrent(fn *ssa.Function) {
	s := &scheduler{events: make(chan schedEvent), maxPreempt: m.hr.cfg.MaxPreempt, maxSteps: 4000}
	if s.maxPreempt == 0 {
		s.maxPreempt = 2
	}
	m.sched = s
	main := &thread{id: 0, resume: make(chan bool), fn: fn, name: "main"}
	s.threads = []*thread{main}
	m.startThread(main)
	defer func() {
		// abort every parked thread so no goroutine outlives the path
		for _, t := range s.threads {
			if !t.done {
				t.resume <- false
				for {
					ev := <-s.events
					if ev.t == t {
						break
					}
				}
				t.done = true
			}
		}
		m.sched = nil
	}()
	next := main
	for {
		s.cur = next
		next.resume <- true
		ev := <-s.events
		t := ev.t
		switch ev.kind {
		case 1:
			t.done = true
			if t == main {
				return
			}
		case 2:
			t.done = true
			panic(ev.panic)
		}
		// choose the next thread
		var cands []*thread
		anyOther := false
		for _, x := range s.threads {
			if x != t && s.enabled(x) {
				anyOther = true
			}
		}
		for _, x := range s.threads {
			if !s.enabled(x) {
				continue
			}
			if x.yielded && anyOther && x == t {
				continue
			}
			cands = append(cands, x)
		}
		if len(cands) == 0 {
			allDone := true
			for _, x := range s.threads {
				if !x.done {
					allDone = false
				}
			}
			if allDone {
				return
			}
			m.deadlock()
		}
		curEnabled := !t.done && s.enabled(t) && !t.yielded
		if curEnabled && s.preemptions >= s.maxPreempt {
			next = t
		} else if len(cands) == 1 {
			next = cands[0]
		} else {
			// put the current thread first so that choice 0 = no preemption
			for i, x := range cands {
				if x == t {
					cands[0], cands[i] = cands[i], cands[0]
				}
			}
			next = cands[m.chooseAmong(nil, len(cands), "pick")]
		}
		if next != t {
			if curEnabled {
				s.preemptions++
			}
			for _, x := range s.threads {
				x.yielded = false
			}
		}
	}
}

func (m *Machine) deadlock() {
	var parts []string
	for _, t := range m.sched.threads {
		if !t.done {
			parts = append(parts, fmt.Sprintf("thread %d (%s) blocked on %s", t.id, t.name, t.why))
		}
	}
	msg := "deadlock: " + strings.Join(parts, "; ")
	assign, blocks, _, ok := m.model(nil, nil)
	if !ok {
		panic(engineErr{"path condition unsatisfiable at deadlock"})
	}
	m.hr.recordViolation(&Violation{Harness: m.hr.name, Tag: "deadlock", Kind: "assert", Msg: msg, Assign: assign, Blocks: blocks})
	panic(pathEnd{"deadlock"})
}
