package main

// Symbolic interpreter for Go SSA. The instruction semantics follow
// golang.org/x/tools/go/ssa/interp (BSD-style license, The Go Authors), which
// is the reference operational semantics; the value model, forking, panic
// paths and natives are this engine's own.

import (
	"fmt"
	"go/token"
	"go/types"
	"runtime"
	"slices"
	"strings"

	"golang.org/x/tools/go/ssa"
)

type engineErr struct{ msg string }

func (e engineErr) Error() string { return "engine: " + e.msg }

// pathEnd terminates the current path without a verdict on it (assumption
// false, infeasible, cut, or after a recorded violation).
type pathEnd struct{ reason string }

// targetPanic is a Go panic raised by the interpreted program.
type targetPanic struct {
	v   Value  // the panic value (an Iface)
	msg string // human-readable
	pos string
}

type deferred struct {
	fn    Value
	args  []Value
	instr *ssa.Defer
	tail  *deferred
}

type frame struct {
	m                *Machine
	caller           *frame
	fn               *ssa.Function
	block, prevBlock *ssa.BasicBlock
	env              map[ssa.Value]Value
	locals           []Value
	defers           *deferred
	result           Value
	panicking        bool
	panicV           *targetPanic
	phitemps         []Value
	callPos          token.Pos
	loopCount        map[*ssa.BasicBlock]int
}

func (fr *frame) get(key ssa.Value) Value {
	switch key := key.(type) {
	case nil:
		return nil
	case *ssa.Function:
		return key
	case *ssa.Builtin:
		return key
	case *ssa.Const:
		return fr.m.constValue(key)
	case *ssa.Global:
		return fr.m.globalAddr(key)
	}
	if r, ok := fr.env[key]; ok {
		return r
	}
	panic(engineErr{fmt.Sprintf("get: no value for %T: %v in %s", key, key.Name(), fr.fn)})
}

func (m *Machine) constValue(c *ssa.Const) Value {
	if c.Value == nil {
		return m.zero(c.Type())
	}
	t := c.Type().Underlying()
	if b, ok := t.(*types.Basic); ok {
		if w, signed, ok := intWidth(b); ok {
			if w == 0 {
				return BoolT(constBool(c))
			}
			if signed {
				return Const(w, uint64(c.Int64()))
			}
			return Const(w, c.Uint64())
		}
		switch {
		case b.Info()&types.IsFloat != 0:
			return c.Float64()
		case b.Info()&types.IsString != 0:
			return constString(c)
		case b.Info()&types.IsComplex != 0:
			return c.Complex128()
		}
	}
	if _, ok := t.(*types.TypeParam); ok {
		panic(engineErr{"constant of type-parameter type"})
	}
	panic(engineErr{fmt.Sprintf("constValue: unexpected constant %v of type %v", c, c.Type())})
}

func (m *Machine) rtPanic(fr *frame, format string, args ...any) {
	msg := "runtime error: " + fmt.Sprintf(format, args...)
	panic(&targetPanic{v: Iface{t: m.p.runtimeErrorString, v: msg}, msg: msg, pos: m.where(fr)})
}

func (m *Machine) where(fr *frame) string {
	if fr == nil {
		return ""
	}
	var parts []string
	for f, n := fr, 0; f != nil && n < 8; f, n = f.caller, n+1 {
		parts = append(parts, f.fn.String())
	}
	return strings.Join(parts, " <- ")
}

func (fr *frame) runDefer(d *deferred) {
	var ok bool
	defer func() {
		if !ok {
			r := recover()
			if tp, is := r.(*targetPanic); is {
				fr.panicking = true
				fr.panicV = tp
				return
			}
			panic(r)
		}
	}()
	fr.m.call(fr, d.instr.Pos(), d.fn, d.args)
	ok = true
}

func (fr *frame) runDefers() {
	for d := fr.defers; d != nil; d = fr.defers {
		fr.defers = d.tail
		fr.runDefer(d)
	}
	fr.defers = nil
	if fr.panicking {
		panic(fr.panicV)
	}
}

func (m *Machine) lookupMethod(typ types.Type, meth *types.Func) *ssa.Function {
	return m.p.prog.LookupMethod(typ, meth.Pkg(), meth.Name())
}

type continuation int

const (
	kNext continuation = iota
	kReturn
	kJump
)

func (m *Machine) visitInstr(fr *frame, instr ssa.Instruction) continuation {
	m.steps++
	if m.steps > m.maxSteps {
		panic(pathEnd{"step-budget"})
	}
	switch instr := instr.(type) {
	case *ssa.DebugRef:

	case *ssa.UnOp:
		fr.env[instr] = m.unop(fr, instr, fr.get(instr.X))

	case *ssa.BinOp:
		fr.env[instr] = m.binop(fr, instr.Op, instr.X.Type(), instr.Y.Type(), fr.get(instr.X), fr.get(instr.Y))

	case *ssa.Call:
		fn, args := m.prepareCall(fr, &instr.Call)
		fr.env[instr] = m.call(fr, instr.Pos(), fn, args)

	case *ssa.ChangeInterface:
		fr.env[instr] = fr.get(instr.X)

	case *ssa.ChangeType:
		fr.env[instr] = fr.get(instr.X)

	case *ssa.Convert:
		fr.env[instr] = m.conv(fr, instr.Type(), instr.X.Type(), fr.get(instr.X))

	case *ssa.MultiConvert:
		fr.env[instr] = m.conv(fr, instr.Type(), instr.X.Type(), fr.get(instr.X))

	case *ssa.SliceToArrayPointer:
		fr.env[instr] = m.sliceToArrayPointer(fr, instr.Type(), fr.get(instr.X))

	case *ssa.MakeInterface:
		fr.env[instr] = Iface{t: instr.X.Type(), v: fr.get(instr.X)}

	case *ssa.Extract:
		fr.env[instr] = fr.get(instr.Tuple).(Tuple)[instr.Index]

	case *ssa.Slice:
		fr.env[instr] = m.sliceOp(fr, instr, fr.get(instr.X), fr.get(instr.Low), fr.get(instr.High), fr.get(instr.Max))

	case *ssa.Return:
		switch len(instr.Results) {
		case 0:
		case 1:
			fr.result = fr.get(instr.Results[0])
		default:
			res := make(Tuple, 0, len(instr.Results))
			for _, r := range instr.Results {
				res = append(res, fr.get(r))
			}
			fr.result = res
		}
		fr.block = nil
		return kReturn

	case *ssa.RunDefers:
		fr.runDefers()

	case *ssa.Panic:
		v := fr.get(instr.X)
		panic(&targetPanic{v: v, msg: m.panicString(v), pos: m.where(fr)})

	case *ssa.Send:
		m.chanSend(fr, fr.get(instr.Chan), fr.get(instr.X))

	case *ssa.Store:
		m.store(fr, mustDeref(instr.Addr.Type()), fr.get(instr.Addr), fr.get(instr.Val))

	case *ssa.If:
		succ := 1
		if m.branch(fr.get(instr.Cond).(*Term)) {
			succ = 0
		}
		fr.prevBlock, fr.block = fr.block, fr.block.Succs[succ]
		if m.loopBounds != nil && fr.block.Index <= fr.prevBlock.Index {
			m.checkLoopBound(fr)
		}
		return kJump

	case *ssa.Jump:
		fr.prevBlock, fr.block = fr.block, fr.block.Succs[0]
		if m.loopBounds != nil && fr.block.Index <= fr.prevBlock.Index {
			m.checkLoopBound(fr)
		}
		return kJump

	case *ssa.Defer:
		fn, args := m.prepareCall(fr, &instr.Call)
		defers := &fr.defers
		if into := fr.get(instr.DeferStack); into != nil {
			defers = into.(**deferred)
		}
		*defers = &deferred{fn: fn, args: args, instr: instr, tail: *defers}

	case *ssa.Go:
		fn, args := m.prepareCall(fr, &instr.Call)
		m.spawn(fr, instr, fn, args)

	case *ssa.MakeChan:
		n := m.concreteInt(fr, fr.get(instr.Size), "chan size")
		m.nextObj++
		fr.env[instr] = &Chan{cap: int(n), id: m.nextObj}

	case *ssa.Alloc:
		var addr *Value
		if instr.Heap {
			addr = new(Value)
			fr.env[instr] = addr
		} else {
			addr = fr.env[instr].(*Value)
		}
		*addr = m.zero(mustDeref(instr.Type()))

	case *ssa.MakeSlice:
		fr.env[instr] = m.makeSlice(fr, instr.Type(), fr.get(instr.Len), fr.get(instr.Cap))

	case *ssa.MakeMap:
		fr.env[instr] = newMap()

	case *ssa.Range:
		fr.env[instr] = m.rangeIter(fr, fr.get(instr.X))

	case *ssa.Next:
		fr.env[instr] = fr.get(instr.Iter).(iterator).next(m, fr)

	case *ssa.FieldAddr:
		if bp, isBP := fr.get(instr.X).(BytePtr); isBP {
			// a typed view over a byte object (arena-allocated struct): address arithmetic
			if bp.obj == nil {
				m.rtPanic(fr, "invalid memory address or nil pointer dereference")
			}
			st := mustDeref(instr.X.Type()).Underlying().(*types.Struct)
			fr.env[instr] = BytePtr{obj: bp.obj, off: m.tc.Bin(OpAdd, bp.off, Const(64, uint64(m.fieldOffset(st, instr.Field))))}
			break
		}
		p, ok := fr.get(instr.X).(*Value)
		if !ok {
			panic(engineErr{fmt.Sprintf("FieldAddr on %T in %s", fr.get(instr.X), fr.fn)})
		}
		if p == nil {
			m.rtPanic(fr, "invalid memory address or nil pointer dereference")
		}
		fr.env[instr] = &(*p).(Struct)[instr.Field]

	case *ssa.Field:
		fr.env[instr] = fr.get(instr.X).(Struct)[instr.Field]

	case *ssa.IndexAddr:
		fr.env[instr] = m.indexAddrT(fr, instr.X.Type(), fr.get(instr.X), fr.get(instr.Index).(*Term), instr.Index.Type())

	case *ssa.Index:
		fr.env[instr] = m.indexVal(fr, fr.get(instr.X), fr.get(instr.Index).(*Term), instr.Index.Type())

	case *ssa.Lookup:
		fr.env[instr] = m.lookup(fr, instr, fr.get(instr.X), fr.get(instr.Index))

	case *ssa.MapUpdate:
		mp := fr.get(instr.Map).(*Map)
		if mp == nil {
			panic(&targetPanic{v: Iface{t: m.p.runtimeErrorString, v: "assignment to entry in nil map"}, msg: "assignment to entry in nil map", pos: m.where(fr)})
		}
		kt := instr.Map.Type().Underlying().(*types.Map).Key()
		m.mapInsert(fr, mp, kt, fr.get(instr.Key), fr.get(instr.Value))

	case *ssa.TypeAssert:
		fr.env[instr] = m.typeAssert(fr, instr, fr.get(instr.X).(Iface))

	case *ssa.MakeClosure:
		var bindings []Value
		for _, b := range instr.Bindings {
			bindings = append(bindings, fr.get(b))
		}
		fr.env[instr] = &Closure{instr.Fn.(*ssa.Function), bindings}

	case *ssa.Phi:
		panic(engineErr{"phi reached in visitInstr"})

	case *ssa.Select:
		fr.env[instr] = m.selectOp(fr, instr)

	default:
		panic(engineErr{fmt.Sprintf("unexpected instruction: %T", instr)})
	}
	return kNext
}

func mustDeref(t types.Type) types.Type {
	if p, ok := t.Underlying().(*types.Pointer); ok {
		return p.Elem()
	}
	panic(engineErr{fmt.Sprintf("mustDeref: %v is not a pointer", t)})
}

func (m *Machine) prepareCall(fr *frame, call *ssa.CallCommon) (fn Value, args []Value) {
	v := fr.get(call.Value)
	if call.Method == nil {
		fn = v
	} else {
		recv := v.(Iface)
		if recv.t == nil {
			m.rtPanic(fr, "invalid memory address or nil pointer dereference (method %s on nil interface)", call.Method.Name())
		}
		f := m.lookupMethod(recv.t, call.Method)
		if f == nil {
			panic(engineErr{fmt.Sprintf("method set for dynamic type %v does not contain %s", recv.t, call.Method)})
		}
		fn = f
		args = append(args, recv.v)
	}
	for _, arg := range call.Args {
		args = append(args, fr.get(arg))
	}
	return
}

func (m *Machine) call(caller *frame, callpos token.Pos, fn Value, args []Value) Value {
	switch fn := fn.(type) {
	case *ssa.Function:
		if fn == nil {
			m.rtPanic(caller, "invalid memory address or nil pointer dereference (call of nil func)")
		}
		return m.callSSA(caller, callpos, fn, args, nil)
	case *Closure:
		if fn == nil {
			m.rtPanic(caller, "invalid memory address or nil pointer dereference (call of nil func)")
		}
		return m.callSSA(caller, callpos, fn.Fn, args, fn.Env)
	case *ssa.Builtin:
		return m.callBuiltin(caller, callpos, fn, args)
	}
	panic(engineErr{fmt.Sprintf("cannot call %T", fn)})
}

func (m *Machine) callSSA(caller *frame, callpos token.Pos, fn *ssa.Function, args []Value, env []Value) Value {
	if caller != nil && isPackageInit(fn) {
		// imported packages are initialised lazily, when one of their globals is first touched
		return nil
	}
	fr := &frame{m: m, caller: caller, fn: fn, callPos: callpos}
	if nat := m.p.native(fn); nat != nil {
		m.noteFunc(fn, true)
		return nat(m, fr, args)
	}
	if fn.Blocks == nil {
		panic(engineErr{"no code for function: " + fn.String()})
	}
	if fn.TypeParams().Len() > 0 && len(fn.TypeArgs()) == 0 {
		panic(engineErr{"uninstantiated generic function: " + fn.String()})
	}
	m.noteFunc(fn, false)
	m.depth++
	if m.depth > 400 {
		panic(engineErr{"call depth > 400 in " + fn.String()})
	}
	defer func() { m.depth-- }()

	fr.env = make(map[ssa.Value]Value, 16)
	fr.block = fn.Blocks[0]
	fr.locals = make([]Value, len(fn.Locals))
	for i, l := range fn.Locals {
		fr.locals[i] = m.zero(mustDeref(l.Type()))
		fr.env[l] = &fr.locals[i]
	}
	for i, p := range fn.Params {
		fr.env[p] = args[i]
	}
	for i, fv := range fn.FreeVars {
		fr.env[fv] = env[i]
	}
	for fr.block != nil {
		m.runFrame(fr)
	}
	return fr.result
}

func (m *Machine) runFrame(fr *frame) {
	defer func() {
		if fr.block == nil {
			return // normal return
		}
		r := recover()
		tp, ok := r.(*targetPanic)
		if !ok {
			if re, isRT := r.(runtime.Error); isRT {
				panic(engineErr{fmt.Sprintf("internal: %v at %s (in %s)", re, shortStack(), fr.fn)})
			}
			panic(r) // engine error or path end: not a target-level event
		}
		fr.panicking = true
		fr.panicV = tp
		fr.runDefers()
		// recovered
		fr.block = fr.fn.Recover
		if fr.block == nil {
			// no named results: return zero values
			fr.result = m.zeroResult(fr.fn)
		}
	}()
	for {
		nonPhis := m.executePhis(fr)
		tolerant := isPackageInit(fr.fn)
		for _, instr := range nonPhis {
			if m.trace {
				m.traceInstr(fr, instr)
			}
			var k continuation
			if tolerant {
				k = m.visitInitInstr(fr, instr)
			} else {
				k = m.visitInstr(fr, instr)
			}
			if k == kReturn {
				return
			}
		}
	}
}

func (m *Machine) zeroResult(fn *ssa.Function) Value {
	res := fn.Signature.Results()
	switch res.Len() {
	case 0:
		return nil
	case 1:
		return m.zero(res.At(0).Type())
	}
	return m.zero(res)
}

func (m *Machine) executePhis(fr *frame) []ssa.Instruction {
	firstNonPhi := -1
	for i, instr := range fr.block.Instrs {
		if _, ok := instr.(*ssa.Phi); !ok {
			firstNonPhi = i
			break
		}
	}
	nonPhis := fr.block.Instrs[firstNonPhi:]
	if firstNonPhi > 0 {
		phis := fr.block.Instrs[:firstNonPhi]
		predIndex := slices.Index(fr.block.Preds, fr.prevBlock)
		fr.phitemps = fr.phitemps[:0]
		for _, phi := range phis {
			fr.phitemps = append(fr.phitemps, fr.get(phi.(*ssa.Phi).Edges[predIndex]))
		}
		for i, phi := range phis {
			fr.env[phi.(*ssa.Phi)] = fr.phitemps[i]
		}
	}
	return nonPhis
}

func (m *Machine) doRecover(caller *frame) Value {
	if caller != nil && !caller.panicking && caller.caller != nil && caller.caller.panicking {
		caller.caller.panicking = false
		p := caller.caller.panicV
		caller.caller.panicV = nil
		return p.v
	}
	return Iface{}
}

func (m *Machine) panicString(v Value) string {
	if i, ok := v.(Iface); ok {
		switch x := i.v.(type) {
		case string:
			return x
		case *Term:
			return x.String()
		}
		if i.t != nil {
			// error values: try the engine's error table
			if p, ok := i.v.(*Value); ok {
				if e, ok := m.errInfo[p]; ok {
					return e.msg
				}
			}
			return "panic(" + i.t.String() + ")"
		}
		return "panic(nil)"
	}
	return fmt.Sprintf("panic(%T)", v)
}

func (m *Machine) traceInstr(fr *frame, instr ssa.Instruction) {
	if v, ok := instr.(ssa.Value); ok {
		fmt.Fprintf(m.traceW, "%s\t%s = %s\n", fr.fn.Name(), v.Name(), instr)
	} else {
		fmt.Fprintf(m.traceW, "%s\t%s\n", fr.fn.Name(), instr)
	}
}

// ---------- globals and lazy package init ----------

func (m *Machine) globalAddr(g *ssa.Global) *Value {
	if p, ok := m.globals[g]; ok {
		return p
	}
	if g.Pkg != nil {
		m.ensureInit(g.Pkg)
	}
	if p, ok := m.globals[g]; ok {
		return p
	}
	cell := new(Value)
	*cell = m.zero(mustDeref(g.Type()))
	m.globals[g] = cell
	return cell
}

func (m *Machine) ensureInit(pkg *ssa.Package) {
	if m.inited[pkg] {
		return
	}
	m.inited[pkg] = true
	for _, mem := range pkg.Members {
		if g, ok := mem.(*ssa.Global); ok {
			if _, ok := m.globals[g]; !ok {
				cell := new(Value)
				*cell = m.zero(mustDeref(g.Type()))
				m.globals[g] = cell
			}
		}
	}
	path := pkg.Pkg.Path()
	if m.p.noInit(path) {
		return
	}
	initFn := pkg.Func("init")
	if initFn == nil || initFn.Blocks == nil {
		return
	}
	saved := m.inInit
	m.inInit++
	defer func() { m.inInit = saved }()
	func() {
		defer func() {
			if r := recover(); r != nil {
				if ee, ok := r.(engineErr); ok {
					panic(engineErr{fmt.Sprintf("while initialising package %s: %s", path, ee.msg)})
				}
				if tp, ok := r.(*targetPanic); ok {
					panic(engineErr{fmt.Sprintf("panic while initialising package %s: %s", path, tp.msg)})
				}
				panic(r)
			}
		}()
		m.callSSA(nil, token.NoPos, initFn, nil, nil)
	}()
}

func isPackageInit(fn *ssa.Function) bool {
	return fn.Synthetic == "package initializer"
}

// poison is the value of a package-level initializer the engine could not
// execute (e.g. it builds an arena skiplist). It may be stored into its global;
// any later use of it is an engine error, so a harness that depends on such a
// global is reported inconclusive instead of running on a wrong value.
type poison struct{ why string }

// visitInitInstr executes one instruction of a package initializer; an engine
// error inside it poisons the instruction's value instead of ending the path.
func (m *Machine) visitInitInstr(fr *frame, instr ssa.Instruction) (k continuation) {
	defer func() {
		r := recover()
		if r == nil {
			return
		}
		var why string
		switch r := r.(type) {
		case engineErr:
			why = r.msg
		case *targetPanic:
			why = "panic: " + r.msg
		default:
			if re, ok := r.(runtime.Error); ok {
				why = "internal: " + re.Error()
			} else {
				panic(r)
			}
		}
		switch instr.(type) {
		case *ssa.If, *ssa.Jump, *ssa.Return, *ssa.Panic:
			panic(engineErr{"package initializer control flow depends on a value the engine could not compute: " + why})
		}
		if v, ok := instr.(ssa.Value); ok {
			fr.env[v] = poison{why}
		}
		m.hr.mu.Lock()
		m.hr.skippedInit[fr.fn.Pkg.Pkg.Path()+": "+why]++
		m.hr.mu.Unlock()
		k = kNext
	}()
	return m.visitInstr(fr, instr)
}

func (m *Machine) fieldOffset(st *types.Struct, field int) int64 {
	fields := make([]*types.Var, st.NumFields())
	for i := range fields {
		fields[i] = st.Field(i)
	}
	return m.p.sizes.Offsetsof(fields)[field]
}
