package main

import "os"

var slowQueryLog = os.Getenv("VERIF_PROGRESS") != ""
