package main

// Decisions: branch / assume, with replay of recorded decision prefixes.

func (m *Machine) addPC(c *Term) {
	if c.IsTrue() {
		return
	}
	m.pc = append(m.pc, c)
	m.modelStillHolds(c)
	m.noteKnown(c)
}

func (m *Machine) forkAlt(d byte) {
	alt := make([]byte, len(m.trace_)+1)
	copy(alt, m.trace_)
	alt[len(m.trace_)] = d
	m.hr.push(alt)
}

// branch decides a symbolic condition, forking when both sides are feasible.
func (m *Machine) branch(c *Term) bool {
	if c.op == OpConst {
		return c.val != 0
	}
	c = m.simp(c)
	if c.op == OpConst {
		return c.val != 0
	}
	if m.pos < len(m.prefix) {
		d := m.prefix[m.pos]
		m.pos++
		m.trace_ = append(m.trace_, d)
		if d == 1 {
			m.addPC(c)
		} else {
			m.addPC(m.tc.BNot(c))
		}
		return d == 1
	}
	nc := m.tc.BNot(c)
	m.pos++
	if v, ok := m.evalModel(c); ok {
		// the cached model satisfies the path condition and takes side v: only the other side needs a query
		side, other, sideT := byte(0), c, nc
		if v {
			side, other, sideT = 1, nc, c
		}
		m.ss.savedQ++
		if m.check(other) == ResSat {
			m.forkAlt(1 - side)
		}
		m.pushDecision(side)
		m.addPC(sideT)
		return v
	}
	rt := m.checkWithModel(c)
	if rt == ResUnsat {
		// the path condition is satisfiable by construction, so the false side is feasible
		m.pushDecision(0)
		m.addPC(nc)
		return false
	}
	if m.check(nc) == ResSat {
		m.forkAlt(0)
	}
	m.pushDecision(1)
	m.addPC(c)
	return true
}

// branchNoFork reports whether c holds on every continuation of this path
// (no fork; the answer is recorded so replays do not re-query).
func (m *Machine) branchNoFork(c *Term) bool {
	if c.op == OpConst {
		return c.val != 0
	}
	c = m.simp(c)
	if c.op == OpConst {
		return c.val != 0
	}
	if m.pos < len(m.prefix) {
		d := m.prefix[m.pos]
		m.pos++
		m.trace_ = append(m.trace_, d)
		return d == 1
	}
	m.pos++
	if v, ok := m.evalModel(c); ok && !v {
		m.pushDecision(0)
		return false
	}
	if m.check(m.tc.BNot(c)) == ResUnsat {
		m.pushDecision(1)
		return true
	}
	m.pushDecision(0)
	return false
}

// assume adds c to the path condition; the path ends if c cannot hold.
func (m *Machine) assume(c *Term) {
	c = m.simp(c)
	if c.op == OpConst {
		if c.val == 0 {
			panic(pathEnd{"assume-false"})
		}
		return
	}
	if m.pos < len(m.prefix) {
		d := m.prefix[m.pos]
		m.pos++
		m.trace_ = append(m.trace_, d)
		if d == 0 {
			panic(pathEnd{"assume-false"})
		}
		m.addPC(c)
		return
	}
	m.pos++
	if v, ok := m.evalModel(c); ok && v {
		m.ss.savedQ++
		m.pushDecision(1)
		m.addPC(c)
		return
	}
	if m.checkWithModel(c) == ResUnsat {
		m.pushDecision(0)
		panic(pathEnd{"assume-false"})
	}
	m.pushDecision(1)
	m.addPC(c)
}
