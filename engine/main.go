package main

import (
	"encoding/json"
	"flag"
	"fmt"
	"os"
	"os/exec"
	"path/filepath"
	"regexp"
	"sort"
	"strconv"
	"strings"
	"time"

	"golang.org/x/tools/go/ssa"
)

const verifsymImport = "github.com/cockroachdb/pebble/internal/verifsym"

type Group struct {
	Pkg   string   `json:"pkg"`   // e.g. "./batchrepr"
	Files []string `json:"files"` // relative to /verif/harness
	// Extra: helper files overlaid into other packages (path relative to the repo -> file relative to
	// /verif/harness), e.g. an exported constructor a harness in another package needs
	Extra map[string]string `json:"extra,omitempty"`
}

type Spec struct {
	Groups      []Group  `json:"groups"`
	Assumptions []string `json:"assumptions"`
	Bounds      []string `json:"bounds"`
	Outside     []string `json:"outside"`
	MaxPaths    int      `json:"max_paths"`
	MaxPathsT   int      `json:"max_paths_thorough"`
	MaxPreempt  int      `json:"max_preempt"`
	MaxPreemptT int      `json:"max_preempt_thorough"`
}

type KnownFinding struct {
	Property string `json:"property"`
	Harness  string `json:"harness"`
	Tag      string `json:"tag"`
	Site     string `json:"site"` // substring of the violation's message or location
	What     string `json:"what"`
}

type KnownFile struct {
	Findings []KnownFinding `json:"findings"`
	Fixed    []string       `json:"fixed"`
}

type harnessReport struct {
	Name         string         `json:"name"`
	Pkg          string         `json:"pkg"`
	Paths        int            `json:"paths"`
	Completed    int            `json:"completed"`
	Ended        map[string]int `json:"path_ends"`
	Cuts         map[string]int `json:"cuts,omitempty"`
	Steps        int64          `json:"ssa_instructions"`
	Queries      int            `json:"queries"`
	Sat          int            `json:"sat"`
	Unsat        int            `json:"unsat"`
	Unknown      int            `json:"unknown"`
	AssertQ      int            `json:"assertion_queries"`
	AssertUnsat  int            `json:"assertion_unsat"`
	SolverS      float64        `json:"solver_time_s"`
	WallS        float64        `json:"wall_s"`
	MaxDepth     int            `json:"max_decisions_on_a_path"`
	Reached      map[string]int `json:"reach_tags"`
	Inconclusive []string       `json:"inconclusive,omitempty"`
	SkippedInit  []string       `json:"package_initializers_not_executed,omitempty"`
	Violations   []*Violation   `json:"violations,omitempty"`
}

func main() {
	if len(os.Args) < 2 {
		fmt.Fprintln(os.Stderr, "usage: gosym check|replay ...")
		os.Exit(2)
	}
	switch os.Args[1] {
	case "check":
		os.Exit(cmdCheck(os.Args[2:]))
	case "replay":
		os.Exit(cmdReplay(os.Args[2:]))
	default:
		fmt.Fprintln(os.Stderr, "unknown command", os.Args[1])
		os.Exit(2)
	}
}

func envInt(name string, def int64) int64 {
	if s := os.Getenv(name); s != "" {
		if v, err := strconv.ParseInt(s, 10, 64); err == nil {
			return v
		}
	}
	return def
}

func cmdCheck(args []string) int {
	fs := flag.NewFlagSet("check", flag.ExitOnError)
	id := fs.String("id", "", "property id")
	tier := fs.String("tier", "quick", "quick|thorough")
	verif := fs.String("verif", "/verif", "verif root")
	repo := fs.String("repo", "/repo", "repository root")
	only := fs.String("harness", "", "run only harnesses whose name contains this")
	workers := fs.Int("workers", 16, "parallel workers")
	trace := fs.Bool("trace", false, "trace instructions (use with -workers 1)")
	noReplay := fs.Bool("noreplay", false, "skip native replay (development only; run is marked inconclusive if something needed replay)")
	solver := fs.String("solver", "z3", "z3|z3-new|cvc5")
	prefix := fs.String("prefix", "", "explore only this decision prefix (digits)")
	maxPathsFlag := fs.Int("maxpaths", 0, "override the path budget (development)")
	fs.Parse(args)
	if *id == "" {
		fmt.Fprintln(os.Stderr, "-id required")
		return 2
	}
	start := time.Now()
	seed := envInt("VERIF_SEED", 0)
	if t := os.Getenv("VERIF_TIER"); t != "" && (t == "quick" || t == "thorough") {
		*tier = t
	}

	var specs map[string]*Spec
	data, err := os.ReadFile(filepath.Join(*verif, "harness", "spec.json"))
	if err != nil {
		fmt.Fprintln(os.Stderr, err)
		return 3
	}
	if err := json.Unmarshal(data, &specs); err != nil {
		fmt.Fprintln(os.Stderr, "spec.json:", err)
		return 3
	}
	spec := specs[*id]
	if spec == nil {
		fmt.Fprintln(os.Stderr, "no spec for", *id)
		return 3
	}
	var known KnownFile
	if data, err := os.ReadFile(filepath.Join(*verif, "known_findings.json")); err == nil {
		if err := json.Unmarshal(data, &known); err != nil {
			fmt.Fprintln(os.Stderr, "known_findings.json:", err)
			return 3
		}
	}

	cfg := RunConfig{Tier: *tier, Seed: seed, Workers: *workers, Solver: *solver, TimeoutMs: 60000,
		MaxPaths: 200000, MaxSteps: 3000000, MaxDepth: 4000, Trace: *trace, MaxPreempt: 2}
	if spec.MaxPaths > 0 {
		cfg.MaxPaths = spec.MaxPaths
	}
	if spec.MaxPreempt > 0 {
		cfg.MaxPreempt = spec.MaxPreempt
	}
	if *tier == "thorough" {
		cfg.TimeoutMs = 300000
		cfg.MaxPaths = 2000000
		if spec.MaxPathsT > 0 {
			cfg.MaxPaths = spec.MaxPathsT
		}
		if spec.MaxPreemptT > 0 {
			cfg.MaxPreempt = spec.MaxPreemptT
		}
	}
	if *maxPathsFlag > 0 {
		cfg.MaxPaths = *maxPathsFlag
	}
	if *prefix != "" {
		for _, ch := range *prefix {
			cfg.OnlyPrefix = append(cfg.OnlyPrefix, byte(ch-'0'))
		}
		if cfg.OnlyPrefix == nil {
			cfg.OnlyPrefix = []byte{}
		}
	}

	var reports []*harnessReport
	funcsEncoded := map[string]int{}
	nativesUsed := map[string]int{}
	var allViol []*Violation
	var witnesses []*Witness
	inconclusive := false
	validated, witnessMismatch := 0, 0
	var loadS float64
	nHarness := 0

	for gi, g := range spec.Groups {
		overlay := symOverlay(*verif, *repo)
		pkgDir := filepath.Join(*repo, strings.TrimPrefix(g.Pkg, "./"))
		for _, f := range g.Files {
			overlay[filepath.Join(pkgDir, "zz_verif_"+filepath.Base(f))] = filepath.Join(*verif, "harness", f)
		}
		for virt, f := range g.Extra {
			overlay[filepath.Join(*repo, virt)] = filepath.Join(*verif, "harness", f)
		}
		prog, err := LoadProgram(*repo, g.Pkg, overlay)
		if err != nil {
			fmt.Printf("INCONCLUSIVE property=%s group=%s: harness does not load against the current tree: %v\n", *id, g.Pkg, err)
			inconclusive = true
			continue
		}
		loadS += prog.loadTime.Seconds() + prog.buildTime.Seconds()
		hs := prog.Harnesses(*id)
		var groupViol []*Violation
		var groupWit []*Witness
		var groupFns []*ssa.Function
		for _, h := range hs {
			if *only != "" && !strings.Contains(h.Name(), *only) {
				continue
			}
			if strings.Contains(h.Name(), "_Thorough") && *tier != "thorough" {
				continue
			}
			// "_Deep": variants kept for development whose cost was not established within the
			// session; run only with -tier deep, never by a registered command
			if strings.Contains(h.Name(), "_Deep") && *tier != "deep" {
				continue
			}
			nHarness++
			groupFns = append(groupFns, h)
			t0 := time.Now()
			hr := prog.Explore(h, cfg)
			rep := &harnessReport{Name: h.Name(), Pkg: g.Pkg, Paths: hr.paths, Completed: hr.ended["completed"], Ended: hr.ended,
				Cuts: hr.cuts, Steps: hr.steps, Queries: hr.queries, Sat: hr.sat, Unsat: hr.unsat, Unknown: hr.unknown,
				AssertQ: hr.assertQ, AssertUnsat: hr.assertUnsat, SolverS: hr.solverTime.Seconds(), WallS: time.Since(t0).Seconds(),
				MaxDepth: hr.maxDepthSeen, Reached: hr.reached, Inconclusive: hr.Inconclusive()}
			for k := range hr.skippedInit {
				rep.SkippedInit = append(rep.SkippedInit, k)
			}
			sort.Strings(rep.SkippedInit)
			if len(rep.Inconclusive) > 0 {
				inconclusive = true
			}
			if len(hr.reached) == 0 && len(hr.viol) == 0 {
				rep.Inconclusive = append(rep.Inconclusive, "vacuous: no path reached a Reach tag")
				inconclusive = true
			}
			for f, n := range hr.funcs {
				funcsEncoded[f] += n
			}
			for f, n := range hr.natives {
				nativesUsed[f] += n
			}
			var keys []string
			for k := range hr.viol {
				keys = append(keys, k)
			}
			sort.Strings(keys)
			for _, k := range keys {
				rep.Violations = append(rep.Violations, hr.viol[k])
				groupViol = append(groupViol, hr.viol[k])
			}
			seenW := map[*Witness]bool{}
			var tags []string
			for t := range hr.witness {
				tags = append(tags, t)
			}
			sort.Strings(tags)
			for _, t := range tags {
				w := hr.witness[t]
				if !seenW[w] {
					seenW[w] = true
					groupWit = append(groupWit, w)
				}
			}
			reports = append(reports, rep)
			fmt.Printf("harness %s: paths=%d completed=%d ends=%v queries=%d (assert %d/%d unsat) solver=%.1fs wall=%.1fs violations=%d%s\n",
				h.Name(), hr.paths, hr.ended["completed"], hr.ended, hr.queries, hr.assertUnsat, hr.assertQ,
				hr.solverTime.Seconds(), time.Since(t0).Seconds(), len(hr.viol), inconcl(rep.Inconclusive))
			if len(hr.cuts) > 0 {
				fmt.Printf("  cuts (outside the bound): %v\n", hr.cuts)
			}
		}
		// native replay of counterexamples and witnesses for this group
		if len(groupViol)+len(groupWit) > 0 {
			if *noReplay {
				if len(groupViol) > 0 {
					inconclusive = true
				}
				for _, v := range groupViol {
					fmt.Printf("UNREPLAYED-COUNTEREXAMPLE property=%s harness=%s tag=%s msg=%q where=%s assign=%v\n", *id, v.Harness, v.Tag, v.Msg, v.Where, v.Assign)
				}
			} else {
				rr := replayGroup(*verif, *repo, *id, gi, g, prog, groupFns, groupViol, groupWit, *tier)
				// concurrent harnesses: a schedule cannot be forced on a native run. If the native
				// stress runs did not hit the violation, the counterexample is re-executed
				// concretely (inputs and schedule fixed, no solver) in the interpreter.
				for _, v := range groupViol {
					if v.Reproduced || !strings.Contains(v.Harness, "_Conc") {
						continue
					}
					for _, h := range groupFns {
						if h.Name() == v.Harness && prog.ReplayConcrete(h, cfg, v) {
							v.Reproduced = true
							v.ReplayOut = "schedule-dependent: reproduced by concrete re-execution of the recorded schedule in the interpreter (native stress runs did not hit it)"
							fmt.Printf("  %s/%s: %s\n", v.Harness, v.Tag, v.ReplayOut)
						}
					}
				}
				validated += rr.validated
				witnessMismatch += rr.mismatch
				if rr.err != "" {
					fmt.Printf("INCONCLUSIVE property=%s: replay failed: %s\n", *id, rr.err)
					inconclusive = true
				}
			}
		}
		allViol = append(allViol, groupViol...)
		witnesses = append(witnesses, groupWit...)
	}
	if nHarness == 0 {
		fmt.Printf("INCONCLUSIVE property=%s: no harness found\n", *id)
		inconclusive = true
	}
	if witnessMismatch > 0 {
		fmt.Printf("INCONCLUSIVE property=%s: %d witness traces disagree between the encoding and the native run\n", *id, witnessMismatch)
		inconclusive = true
	}

	// classify violations
	exit := 0
	nviol := 0
	for _, v := range allViol {
		if !v.Reproduced {
			if !*noReplay {
				fmt.Printf("UNCONFIRMED-COUNTEREXAMPLE property=%s harness=%s tag=%s msg=%q where=%s\n", *id, v.Harness, v.Tag, v.Msg, v.Where)
				inconclusive = true
			}
			continue
		}
		if kf := matchKnown(&known, *id, v); kf != nil {
			fmt.Printf("KNOWN-FINDING: property=%s %s\n", *id, kf.What)
			continue
		}
		nviol++
		fmt.Printf("VIOLATION property=%s replay=%s\n", *id, v.ReplayDir)
		fmt.Printf("  harness=%s tag=%s msg=%q where=%s\n", v.Harness, v.Tag, v.Msg, v.Where)
		exit = 1
	}
	if exit == 0 && inconclusive {
		exit = 3
	}

	writeEvidence(*verif, *id, *tier, seed, spec, reports, funcsEncoded, nativesUsed, witnesses, validated, nviol, inconclusive, loadS, time.Since(start).Seconds(), cfg)
	switch exit {
	case 0:
		fmt.Printf("OK property=%s tier=%s harnesses=%d wall=%.1fs\n", *id, *tier, nHarness, time.Since(start).Seconds())
	case 3:
		fmt.Printf("INCONCLUSIVE property=%s tier=%s (bound not established; see above)\n", *id, *tier)
	}
	return exit
}

func inconcl(why []string) string {
	if len(why) == 0 {
		return ""
	}
	return " INCONCLUSIVE: " + strings.Join(why, " | ")
}

func matchKnown(k *KnownFile, id string, v *Violation) *KnownFinding {
	for i := range k.Findings {
		f := &k.Findings[i]
		if f.Property != id || f.Harness != v.Harness || f.Tag != v.Tag {
			continue
		}
		if f.Site != "" && !strings.Contains(v.Msg+" "+v.Where, f.Site) {
			continue
		}
		return f
	}
	return nil
}

// symOverlay maps every file of /verif/harness/verifsym into /repo/internal/verifsym.
func symOverlay(verif, repo string) map[string]string {
	ov := map[string]string{}
	files, _ := filepath.Glob(filepath.Join(verif, "harness/verifsym/*.go"))
	for _, f := range files {
		ov[filepath.Join(repo, "internal/verifsym", filepath.Base(f))] = f
	}
	return ov
}

// ---------- native replay ----------

type replayResult struct {
	validated int
	mismatch  int
	err       string
}

type replayCase struct {
	Harness  string            `json:"harness"`
	Kind     string            `json:"kind"`
	Tag      string            `json:"tag"`
	Assign   map[string]uint64 `json:"assign"`
	Blocks   map[string][]byte `json:"blocks"`
	Observes []string          `json:"observes"`
}

var replayLine = regexp.MustCompile(`^VERIF-REPLAY case=(\d+) harness=(\S+) outcome=(.*?) reached=(.*?) observes=(.*)$`)

func replayGroup(verif, repo, id string, gi int, g Group, prog *Program, fns []*ssa.Function, viol []*Violation, wits []*Witness, tier string) replayResult {
	var res replayResult
	var cases []replayCase
	for _, v := range viol {
		cases = append(cases, replayCase{Harness: v.Harness, Kind: "violation", Tag: v.Tag, Assign: v.Assign, Blocks: v.Blocks})
	}
	for _, w := range wits {
		cases = append(cases, replayCase{Harness: w.Harness, Kind: "witness", Assign: w.Assign, Blocks: w.Blocks, Observes: w.Observes})
	}
	dir := filepath.Join(verif, "replays", id, fmt.Sprintf("g%d-%s", gi, strings.ReplaceAll(strings.TrimPrefix(g.Pkg, "./"), "/", "_")))
	os.RemoveAll(dir)
	if err := os.MkdirAll(dir, 0o755); err != nil {
		res.err = err.Error()
		return res
	}
	out, err := runReplay(verif, repo, dir, g, prog.target.Pkg.Name(), fns, cases, tier)
	if err != nil {
		res.err = err.Error() + "\n" + out
		return res
	}
	seen := map[int]bool{}
	for _, line := range strings.Split(out, "\n") {
		mm := replayLine.FindStringSubmatch(strings.TrimSpace(line))
		if mm == nil {
			continue
		}
		i, _ := strconv.Atoi(mm[1])
		if i >= len(cases) {
			continue
		}
		seen[i] = true
		outcome := mm[3]
		c := cases[i]
		if c.Kind == "violation" {
			v := viol[i]
			v.ReplayOut = outcome
			v.ReplayDir = dir
			switch v.Kind {
			case "assert":
				if outcome == "assert-failed tag="+v.Tag || (v.Tag == "deadlock" && strings.Contains(outcome, "deadlock")) {
					v.Reproduced = true
				}
				// concurrent harness under the native scheduler: another assertion of the same
				// harness (or a panic in the code under test) may fire first on the schedule it picks
				if strings.Contains(v.Harness, "_Conc") && (strings.HasPrefix(outcome, "assert-failed") || strings.HasPrefix(outcome, "panic ")) {
					v.Reproduced = true
				}
			case "panic":
				if strings.HasPrefix(outcome, "panic ") || strings.HasPrefix(outcome, "assert-failed tag="+v.Tag) {
					v.Reproduced = true
				}
			}
			if !v.Reproduced {
				fmt.Printf("  replay of %s/%s did not reproduce: native outcome %q\n", v.Harness, v.Tag, outcome)
			}
		} else {
			want := strings.Join(c.Observes, ";")
			if outcome == "completed" && mm[5] == want {
				res.validated++
			} else {
				res.mismatch++
				fmt.Printf("  witness mismatch for %s: native outcome=%q observes=%q, encoding observes=%q assign=%v\n", c.Harness, outcome, mm[5], want, c.Assign)
			}
		}
	}
	for i := range cases {
		if !seen[i] {
			res.err = fmt.Sprintf("no replay result for case %d; output:\n%s", i, tail(out, 40))
			break
		}
	}
	return res
}

func tail(s string, n int) string {
	lines := strings.Split(s, "\n")
	if len(lines) > n {
		lines = lines[len(lines)-n:]
	}
	return strings.Join(lines, "\n")
}

func runReplay(verif, repo, dir string, g Group, pkgName string, fns []*ssa.Function, cases []replayCase, tier string) (string, error) {
	data, _ := json.MarshalIndent(cases, "", " ")
	casesPath := filepath.Join(dir, "cases.json")
	if err := os.WriteFile(casesPath, data, 0o644); err != nil {
		return "", err
	}
	var sb strings.Builder
	fmt.Fprintf(&sb, "package %s\n\nimport (\n\t\"testing\"\n\n\tsym %q\n)\n\n", pkgName, verifsymImport)
	sb.WriteString("func TestVerifReplay(t *testing.T) {\n\tsym.ReplayMain(map[string]func(){\n")
	for _, f := range fns {
		fmt.Fprintf(&sb, "\t\t%q: %s,\n", f.Name(), f.Name())
	}
	sb.WriteString("\t})\n}\n")
	testPath := filepath.Join(dir, "replay_test.go")
	if err := os.WriteFile(testPath, []byte(sb.String()), 0o644); err != nil {
		return "", err
	}
	pkgDir := filepath.Join(repo, strings.TrimPrefix(g.Pkg, "./"))
	repl := symOverlay(verif, repo)
	repl[filepath.Join(pkgDir, "zz_verif_replay_test.go")] = testPath
	for _, f := range g.Files {
		// keep a copy of the harness with the replay so it stays self-contained
		src := filepath.Join(verif, "harness", f)
		repl[filepath.Join(pkgDir, "zz_verif_"+filepath.Base(f))] = src
	}
	for virt, f := range g.Extra {
		repl[filepath.Join(repo, virt)] = filepath.Join(verif, "harness", f)
	}
	ov, _ := json.MarshalIndent(map[string]any{"Replace": repl}, "", " ")
	ovPath := filepath.Join(dir, "overlay.json")
	if err := os.WriteFile(ovPath, ov, 0o644); err != nil {
		return "", err
	}
	script := fmt.Sprintf("#!/bin/sh\n# native replay of the cases in cases.json against the real code in %s\ncd %s && GOFLAGS=-mod=mod GOPROXY=off VERIF_TIER=%s VERIF_REPLAY_CONC_RUNS=300 VERIF_REPLAY=%s go test -vet=off -count=1 -v -overlay %s -run '^TestVerifReplay$' %s\n",
		repo, repo, tier, casesPath, ovPath, g.Pkg)
	os.WriteFile(filepath.Join(dir, "replay.sh"), []byte(script), 0o755)
	cmd := exec.Command("go", "test", "-vet=off", "-count=1", "-v", "-overlay", ovPath, "-run", "^TestVerifReplay$", g.Pkg)
	cmd.Dir = repo
	cmd.Env = append(os.Environ(), "GOFLAGS=-mod=mod", "GOPROXY=off", "VERIF_REPLAY="+casesPath, "VERIF_TIER="+tier, "VERIF_REPLAY_CONC_RUNS=300")
	out, err := cmd.CombinedOutput()
	if err != nil && !strings.Contains(string(out), "VERIF-REPLAY case=") {
		return string(out), fmt.Errorf("go test failed: %v", err)
	}
	return string(out), nil
}

func cmdReplay(args []string) int {
	if len(args) < 1 {
		fmt.Fprintln(os.Stderr, "usage: gosym replay <dir>")
		return 2
	}
	cmd := exec.Command("sh", filepath.Join(args[0], "replay.sh"))
	cmd.Stdout = os.Stdout
	cmd.Stderr = os.Stderr
	if err := cmd.Run(); err != nil {
		return 1
	}
	return 0
}

// ---------- evidence ----------

func writeEvidence(verif, id, tier string, seed int64, spec *Spec, reports []*harnessReport, funcs, natives map[string]int,
	witnesses []*Witness, validated, nviol int, inconclusive bool, loadS, wall float64, cfg RunConfig) {
	states, transitions := 0, int64(0)
	queries, sat, unsat, unknown, assertQ, assertUnsat := 0, 0, 0, 0, 0, 0
	solverS := 0.0
	for _, r := range reports {
		states += r.Paths
		transitions += r.Steps
		queries += r.Queries
		sat += r.Sat
		unsat += r.Unsat
		unknown += r.Unknown
		assertQ += r.AssertQ
		assertUnsat += r.AssertUnsat
		solverS += r.SolverS
	}
	var fnames []string
	repoFns := 0
	for f := range funcs {
		fnames = append(fnames, f)
		if strings.Contains(f, "cockroachdb/pebble") && !strings.Contains(f, "VerifHarness") && !strings.Contains(f, "verifsym") {
			repoFns++
		}
	}
	sort.Strings(fnames)
	var fl []string
	for _, f := range fnames {
		if strings.Contains(f, "cockroachdb/pebble") {
			fl = append(fl, fmt.Sprintf("%s x%d", f, funcs[f]))
		}
	}
	var nl []string
	for f, n := range natives {
		nl = append(nl, fmt.Sprintf("%s x%d", f, n))
	}
	sort.Strings(nl)
	var samples []any
	for i, w := range witnesses {
		if i >= 6 {
			break
		}
		samples = append(samples, map[string]any{"harness": w.Harness, "reach": w.Tags, "inputs": trimAssign(w.Assign), "observed": w.Observes})
	}
	if len(samples) == 0 {
		samples = append(samples, "no witness path (run inconclusive)")
	}
	if states < 1 {
		states = 1
	}
	if transitions < 1 {
		transitions = 1
	}
	ev := map[string]any{
		"property_id": id,
		"tier":        tier,
		"seed":        seed,
		"level":       "model_checking",
		"coverage": map[string]any{
			"states":                        states,
			"transitions":                   transitions,
			"traces_validated_against_impl": validated,
			"samples":                       samples,
			"exhaustive":                    !inconclusive,
			"explanation": "states = completed symbolic paths of the harnesses over the real SSA of /repo (each path covers every input value satisfying its path condition); " +
				"transitions = SSA instructions executed symbolically; every assertion query is discharged by the SMT solver over all values on its path; " +
				"traces_validated = witness paths whose solver model was replayed natively against the real build with identical observations.",
			"harnesses":                 reports,
			"functions_encoded":         fl,
			"repo_functions_encoded":    repoFns,
			"native_models_used":        nl,
			"bounds":                    spec.Bounds,
			"outside_the_claim":         spec.Outside,
			"queries":                   map[string]int{"total": queries, "sat": sat, "unsat": unsat, "unknown": unknown, "assertion_queries": assertQ, "assertions_proved_unsat": assertUnsat},
			"solver":                    cfg.Solver,
			"solver_time_s":             solverS,
			"load_and_ssa_build_time_s": loadS,
			"inconclusive":              inconclusive,
			"limits":                    map[string]any{"max_paths": cfg.MaxPaths, "max_steps_per_path": cfg.MaxSteps, "max_decisions_per_path": cfg.MaxDepth, "query_timeout_ms": cfg.TimeoutMs, "max_preemptions": cfg.MaxPreempt},
		},
		"assumptions": append([]string{
			"native models listed under coverage.native_models_used are trusted (errors, fmt, sync, atomics, checksums as uninterpreted functions where data is symbolic)",
			"Go map iteration order is insertion order in the encoding (randomised order not explored)",
		}, spec.Assumptions...),
		"wall_s":     wall,
		"violations": nviol,
	}
	os.MkdirAll(filepath.Join(verif, "evidence"), 0o755)
	data, _ := json.MarshalIndent(ev, "", " ")
	os.WriteFile(filepath.Join(verif, "evidence", id+".json"), data, 0o644)
}

func trimAssign(a map[string]uint64) map[string]uint64 {
	if len(a) <= 40 {
		return a
	}
	var keys []string
	for k := range a {
		keys = append(keys, k)
	}
	sort.Strings(keys)
	out := map[string]uint64{}
	for _, k := range keys[:40] {
		out[k] = a[k]
	}
	return out
}
