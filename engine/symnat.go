package main

// The verifsym intrinsics (the harness-facing API) as interpreted by the engine.

import (
	"fmt"
	"go/types"
)

var symNatives map[string]nativeFn

func (m *Machine) freshName(base Value) string {
	s, ok := m.strVal(base).(string)
	if !ok {
		panic(engineErr{"verifsym: symbolic name"})
	}
	k := m.nameCount[s]
	m.nameCount[s] = k + 1
	return fmt.Sprintf("%s#%d", s, k)
}

func (m *Machine) newInput(name string, w int) *Term {
	if m.concrete != nil {
		// concrete replay of a counterexample: inputs (data and schedule choices) are the model's values
		val := m.concrete[name]
		if w < 64 {
			val &= (uint64(1) << uint(w)) - 1
		}
		return Const(w, val)
	}
	v := m.tc.Var(name, w)
	m.inputs = append(m.inputs, v)
	return v
}

func symInt(w int) nativeFn {
	return func(m *Machine, fr *frame, a []Value) Value {
		return m.newInput(m.freshName(a[0]), w)
	}
}

func init() {
	symNatives = map[string]nativeFn{
		"U8":  symInt(8),
		"U16": symInt(16),
		"U32": symInt(32),
		"U64": symInt(64),
		"Int": symInt(64),
		"Bool": func(m *Machine, fr *frame, a []Value) Value {
			v := m.newInput(m.freshName(a[0]), 8)
			return m.tc.Eq(m.tc.Extract(v, 0, 0), Const(1, 1))
		},
		// Bytes(name, maxLen): symbolic length 0..maxLen, symbolic contents.
		"Bytes": func(m *Machine, fr *frame, a []Value) Value {
			name := m.freshName(a[0])
			max := int(m.mustConst(a[1], "Bytes maxLen"))
			n := m.newInput(name+".len", 64)
			m.assume(m.tc.Cmp(OpULe, n, Const(64, uint64(max))))
			o := m.newByteObj(Const(64, uint64(max)))
			for i := 0; i < max; i++ {
				o.ov[int64(i)] = m.newInput(fmt.Sprintf("%s[%d]", name, i), 8)
			}
			return ByteSlice{obj: o, off: Const(64, 0), len: n, cap: n}
		},
		"BytesN": func(m *Machine, fr *frame, a []Value) Value {
			name := m.freshName(a[0])
			n := int(m.concreteInt(fr, a[1], "BytesN length"))
			o := m.newByteObj(Const(64, uint64(n)))
			for i := 0; i < n; i++ {
				o.ov[int64(i)] = m.newInput(fmt.Sprintf("%s[%d]", name, i), 8)
			}
			return ByteSlice{obj: o, off: Const(64, 0), len: Const(64, uint64(n)), cap: Const(64, uint64(n))}
		},
		// Block(name, n): n bytes backed by one array variable (for large buffers).
		"Block": func(m *Machine, fr *frame, a []Value) Value {
			name := m.freshName(a[0])
			n := int(m.mustConst(a[1], "Block length"))
			arr := m.tc.Var(name, ArrW)
			m.blocks = append(m.blocks, blockInput{name: name, arr: arr, n: n})
			o := m.newByteObj(Const(64, uint64(n)))
			o.base = arr
			return ByteSlice{obj: o, off: Const(64, 0), len: Const(64, uint64(n)), cap: Const(64, uint64(n))}
		},
		// Choose(name, k): a value in [0,k), made concrete by forking.
		"Choose": func(m *Machine, fr *frame, a []Value) Value {
			name := m.freshName(a[0])
			k := m.concreteInt(fr, a[1], "Choose bound")
			if k <= 0 {
				panic(engineErr{"verifsym.Choose with k <= 0"})
			}
			v := m.newInput(name, 64)
			m.assume(m.tc.Cmp(OpULt, v, Const(64, uint64(k))))
			for i := int64(0); i < k-1; i++ {
				if m.branch(m.tc.Eq(v, Const(64, uint64(i)))) {
					return Const(64, uint64(i))
				}
			}
			return Const(64, uint64(k-1))
		},
		// Range(name, lo, hi): a symbolic int in [lo, hi], not concretized.
		"Range": func(m *Machine, fr *frame, a []Value) Value {
			name := m.freshName(a[0])
			v := m.newInput(name, 64)
			m.assume(m.tc.BAnd(m.tc.Cmp(OpSLe, term(a[1]), v), m.tc.Cmp(OpSLe, v, term(a[2]))))
			return v
		},
		"Assume": func(m *Machine, fr *frame, a []Value) Value {
			m.assume(term(a[0]))
			return nil
		},
		"Assert": func(m *Machine, fr *frame, a []Value) Value {
			tag, _ := m.strVal(a[1]).(string)
			m.assertProp(fr.caller, term(a[0]), tag)
			return nil
		},
		"NoPanic": func(m *Machine, fr *frame, a []Value) Value {
			tag, _ := m.strVal(a[0]).(string)
			m.runNoPanic(fr, tag, a[1])
			return nil
		},
		// Panics(f) reports whether f panics (the panic is swallowed).
		"Panics": func(m *Machine, fr *frame, a []Value) Value {
			return BoolT(m.runCatch(fr, a[0]) != nil)
		},
		"Reach": func(m *Machine, fr *frame, a []Value) Value {
			tag, _ := m.strVal(a[0]).(string)
			for _, t := range m.reached {
				if t == tag {
					return nil
				}
			}
			m.reached = append(m.reached, tag)
			return nil
		},
		"Observe": func(m *Machine, fr *frame, a []Value) Value {
			tag, _ := m.strVal(a[0]).(string)
			rec := obsRec{tag: tag}
			for _, v := range a[1].(Slice) {
				it := v.(Iface)
				switch x := it.v.(type) {
				case *Term:
					if x.w == 0 {
						x = m.tc.BoolToBV(x, 8)
					} else if _, signed, _ := intWidth(it.t); signed {
						x = m.tc.SExt(x, 64)
					}
					rec.terms = append(rec.terms, x)
				case ByteSlice:
					n := m.concLen(fr, x, "Observe bytes")
					rec.terms = append(rec.terms, Const(64, uint64(n)))
					for i := 0; i < n; i++ {
						rec.terms = append(rec.terms, m.byteAt(x, i))
					}
				case string:
					rec.terms = append(rec.terms, Const(64, uint64(len(x))))
					for i := 0; i < len(x); i++ {
						rec.terms = append(rec.terms, Const(8, uint64(x[i])))
					}
				default:
					panic(engineErr{fmt.Sprintf("Observe of %T", x)})
				}
			}
			m.observes = append(m.observes, rec)
			return nil
		},
		"CopyBound": func(m *Machine, fr *frame, a []Value) Value {
			m.copyBound = int(m.mustConst(a[0], "CopyBound"))
			return nil
		},
		"ConcBound": func(m *Machine, fr *frame, a []Value) Value {
			m.concBound = int(m.mustConst(a[0], "ConcBound"))
			return nil
		},
		"Unwind":   nop,
		"MaxPaths": nop,
		"Tier": func(m *Machine, fr *frame, a []Value) Value {
			return m.hr.cfg.Tier
		},
		"Thorough": func(m *Machine, fr *frame, a []Value) Value {
			return BoolT(m.hr.cfg.Tier == "thorough")
		},
		"Symbolic": func(m *Machine, fr *frame, a []Value) Value { return tTrue },
		// Concrete(x) forks until x is a constant and returns it.
		"Concrete": func(m *Machine, fr *frame, a []Value) Value {
			return Const(64, uint64(m.concretize(fr, term(a[0]), "sym.Concrete")))
		},
		// Ite(c, a, b) builds a value without forking.
		"Ite": func(m *Machine, fr *frame, a []Value) Value {
			return m.tc.Ite(term(a[0]), term(a[1]), term(a[2]))
		},
		// And/Or/Implies: boolean connectives without the forks && and || introduce.
		"And": func(m *Machine, fr *frame, a []Value) Value { return m.tc.BAnd(term(a[0]), term(a[1])) },
		"Or":  func(m *Machine, fr *frame, a []Value) Value { return m.tc.BOr(term(a[0]), term(a[1])) },
		"Implies": func(m *Machine, fr *frame, a []Value) Value {
			return m.tc.Implies(term(a[0]), term(a[1]))
		},
		// BytesEq(a, b): content equality as one term.
		"BytesEq": func(m *Machine, fr *frame, a []Value) Value {
			return m.bytesEqual(fr, a[0].(ByteSlice), a[1].(ByteSlice))
		},
		// NoCollision(a, b): the idealised-checksum assumption for the pair (a, b).
		"Yield": func(m *Machine, fr *frame, a []Value) Value { m.yield(fr); return nil },
	}
}

var _ = types.Identical

// runCatch calls f() and returns the target panic it raised, if any.
func (m *Machine) runCatch(fr *frame, f Value) (tp *targetPanic) {
	defer func() {
		if r := recover(); r != nil {
			if p, ok := r.(*targetPanic); ok {
				tp = p
				return
			}
			panic(r)
		}
	}()
	m.call(fr, 0, f, nil)
	return nil
}

func (m *Machine) runNoPanic(fr *frame, tag string, f Value) {
	tp := m.runCatch(fr, f)
	if tp == nil {
		return
	}
	if m.hr.haveViolation("panic:nopanic:" + tag) {
		panic(pathEnd{"panic-violation"})
	}
	assign, blocks, _, ok := m.model(nil, nil)
	if !ok {
		panic(engineErr{"path condition unsatisfiable at panic"})
	}
	m.hr.recordViolation(&Violation{Harness: m.hr.name, Tag: "nopanic:" + tag, Kind: "panic", Msg: tp.msg, Where: tp.pos, Assign: assign, Blocks: blocks})
	panic(pathEnd{"panic-violation"})
}
