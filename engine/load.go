package main

import (
	"fmt"
	"go/types"
	"os"
	"path/filepath"
	"sort"
	"strings"
	"sync"
	"time"

	"golang.org/x/tools/go/packages"
	"golang.org/x/tools/go/ssa"
	"golang.org/x/tools/go/ssa/ssautil"
)

type Program struct {
	prog               *ssa.Program
	target             *ssa.Package
	sizes              types.Sizes
	runtimeErrorString types.Type
	errorStringPtr     types.Type
	errorIface         *types.Interface
	nativeCache        sync.Map
	loadTime           time.Duration
	buildTime          time.Duration
	repo               string
}

// LoadProgram loads pkgPattern (relative to repo) with the given overlay files
// (virtual path -> real path) and builds SSA for it and all dependencies.
func LoadProgram(repo, pkgPattern string, overlay map[string]string) (*Program, error) {
	start := time.Now()
	ov := map[string][]byte{}
	for virt, real := range overlay {
		data, err := os.ReadFile(real)
		if err != nil {
			return nil, err
		}
		ov[virt] = data
	}
	cfg := &packages.Config{
		Mode: packages.NeedName | packages.NeedFiles | packages.NeedCompiledGoFiles | packages.NeedImports |
			packages.NeedDeps | packages.NeedTypes | packages.NeedSyntax | packages.NeedTypesInfo |
			packages.NeedTypesSizes | packages.NeedModule,
		Dir:     repo,
		Overlay: ov,
		Env:     append(os.Environ(), "GOFLAGS=-mod=mod", "GOPROXY=off"),
	}
	pkgs, err := packages.Load(cfg, pkgPattern)
	if err != nil {
		return nil, err
	}
	var errs []string
	packages.Visit(pkgs, nil, func(p *packages.Package) {
		for _, e := range p.Errors {
			errs = append(errs, e.Error())
		}
	})
	if len(errs) > 0 {
		if len(errs) > 10 {
			errs = errs[:10]
		}
		return nil, fmt.Errorf("package load errors:\n%s", strings.Join(errs, "\n"))
	}
	if len(pkgs) != 1 {
		return nil, fmt.Errorf("pattern %s matched %d packages", pkgPattern, len(pkgs))
	}
	p := &Program{repo: repo, loadTime: time.Since(start)}
	start = time.Now()
	prog, _ := ssautil.AllPackages(pkgs, ssa.InstantiateGenerics|ssa.SanityCheckFunctions*0)
	prog.Build()
	p.buildTime = time.Since(start)
	p.prog = prog
	p.target = prog.Package(pkgs[0].Types)
	p.sizes = pkgs[0].TypesSizes
	if p.sizes == nil {
		p.sizes = types.SizesFor("gc", "amd64")
	}
	rt := prog.ImportedPackage("runtime")
	if rt == nil {
		return nil, fmt.Errorf("runtime package not loaded")
	}
	p.runtimeErrorString = rt.Type("errorString").Object().Type()
	ep := prog.ImportedPackage("errors")
	if ep == nil {
		return nil, fmt.Errorf("errors package not loaded")
	}
	p.errorStringPtr = types.NewPointer(ep.Type("errorString").Object().Type())
	p.errorIface = types.Universe.Lookup("error").Type().Underlying().(*types.Interface)
	return p, nil
}

// Harnesses returns the harness functions of the target package whose names
// start with VerifHarness_<id>_, sorted by name.
func (p *Program) Harnesses(id string) []*ssa.Function {
	var out []*ssa.Function
	for name, mem := range p.target.Members {
		fn, ok := mem.(*ssa.Function)
		if !ok {
			continue
		}
		if strings.HasPrefix(name, "VerifHarness_"+id+"_") {
			out = append(out, fn)
		}
	}
	sort.Slice(out, func(i, j int) bool { return out[i].Name() < out[j].Name() })
	return out
}

func relRepo(repo, path string) string {
	if r, err := filepath.Rel(repo, path); err == nil {
		return r
	}
	return path
}
