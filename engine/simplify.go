package main

// Query avoidance: (1) equalities fixed by the path condition are substituted
// into later conditions (which then often fold to constants); (2) the last
// model returned by the solver is kept and conditions are evaluated under it,
// so the side the model takes needs no feasibility query.

type simplState struct {
	known   map[*Term]*Term
	knownRw *Rewriter
	// cached model of the current path condition
	haveModel bool
	modelRw   *Rewriter
	modelVals map[*Term]*Term
	savedQ    int
}

func (m *Machine) noteKnown(c *Term) {
	switch c.op {
	case OpEq:
		if c.args[1].op == OpConst && c.args[0].op != OpConst && c.args[0].w != ArrW {
			m.setKnown(c.args[0], c.args[1])
		} else if c.args[0].op == OpConst && c.args[1].op != OpConst && c.args[1].w != ArrW {
			m.setKnown(c.args[1], c.args[0])
		}
	case OpBAnd:
		m.noteKnown(c.args[0])
		m.noteKnown(c.args[1])
	case OpBNot:
		if c.args[0].op != OpConst {
			m.setKnown(c.args[0], tFalse)
		}
		return
	}
	if c.op != OpConst {
		m.setKnown(c, tTrue)
	}
}

func (m *Machine) setKnown(t, v *Term) {
	if m.ss.known == nil {
		m.ss.known = map[*Term]*Term{}
	}
	if _, ok := m.ss.known[t]; ok {
		return
	}
	m.ss.known[t] = v
	m.ss.knownRw = nil // memo is stale
}

// simp rewrites c under the equalities the path condition fixes.
func (m *Machine) simp(c *Term) *Term {
	if c.op == OpConst || len(m.ss.known) == 0 {
		return c
	}
	if m.ss.knownRw == nil {
		m.ss.knownRw = &Rewriter{tc: m.tc, subst: m.ss.known, memo: map[*Term]*Term{}}
	}
	return m.ss.knownRw.Rw(c)
}

// evalModel evaluates c under the cached model; ok=false if there is no usable model
// or c does not evaluate to a constant (arrays, uninterpreted functions).
func (m *Machine) evalModel(c *Term) (val bool, ok bool) {
	if !m.ss.haveModel {
		return false, false
	}
	r := m.ss.modelRw.Rw(c)
	if r.op != OpConst {
		return false, false
	}
	return r.val != 0, true
}

// modelStillHolds is called when c is added to the path condition.
func (m *Machine) modelStillHolds(c *Term) {
	if !m.ss.haveModel {
		return
	}
	if v, ok := m.evalModel(c); !ok || !v {
		m.ss.haveModel = false
	}
}

// fetchModel reads the input values from the solver right after a sat answer
// whose push frame is still open.
func (m *Machine) fetchModel() {
	m.ss.haveModel = false
	if len(m.blocks) > 0 {
		return // array inputs: evaluation under a model is not attempted
	}
	vals, err := m.solver.GetValues(m.tc, m.inputs)
	if err != nil {
		panic(engineErr{"get-value failed: " + err.Error()})
	}
	mv := make(map[*Term]*Term, len(vals))
	for i, in := range m.inputs {
		mv[in] = Const64w(in.w, vals[i])
		if in.w == 0 {
			mv[in] = BoolT(vals[i] != 0)
		}
	}
	m.ss.modelVals = mv
	m.ss.modelRw = &Rewriter{tc: m.tc, subst: mv, memo: map[*Term]*Term{}, defaultZero: true}
	m.ss.haveModel = true
}

// checkWithModel is check() that also caches the model on sat.
func (m *Machine) checkWithModel(extra *Term) SatResult {
	m.syncSolver()
	for _, in := range m.inputs {
		m.solver.pr.Define(in)
	}
	r, msg := m.solver.Check(m.tc, extra, true)
	if r == ResUnknown || r == ResError {
		panic(engineErr{"solver answered " + r.String() + " " + msg})
	}
	if r == ResSat {
		m.fetchModel()
		if extra != nil {
			m.solver.PopKeep()
		}
	}
	return r
}
