package main

// Path exploration: depth-first over decision prefixes with re-execution.

import (
	"fmt"
	"go/token"
	"io"
	"os"
	"runtime"
	"sort"
	"strings"
	"sync"
	"time"

	"golang.org/x/tools/go/ssa"
)

type Violation struct {
	Harness string            `json:"harness"`
	Tag     string            `json:"tag"`
	Kind    string            `json:"kind"` // assert | panic
	Msg     string            `json:"msg"`
	Where   string            `json:"where"`
	Assign  map[string]uint64 `json:"assign"`
	Blocks  map[string][]byte `json:"blocks,omitempty"`
	// filled in by replay
	Reproduced bool   `json:"reproduced"`
	ReplayDir  string `json:"replay_dir,omitempty"`
	ReplayOut  string `json:"replay_out,omitempty"`
}

type Witness struct {
	Harness  string            `json:"harness"`
	Tags     []string          `json:"tags"`
	Assign   map[string]uint64 `json:"assign"`
	Blocks   map[string][]byte `json:"blocks,omitempty"`
	Observes []string          `json:"observes"`
}

type obsRec struct {
	tag   string
	terms []*Term
	descr []string // for non-term values
}

type blockInput struct {
	name string
	arr  *Term
	n    int
}

// HarnessRun is the shared state of exploring one harness.
type HarnessRun struct {
	p       *Program
	fn      *ssa.Function
	name    string
	mu      sync.Mutex
	work    [][]byte
	active  int
	cond    *sync.Cond
	paths   int
	ended   map[string]int // pathEnd reasons
	cuts    map[string]int
	steps   int64
	viol    map[string]*Violation
	witness map[string]*Witness // by tag
	reached map[string]int
	errs    []string
	funcs   map[string]int // function -> instructions executed? (calls)
	natives map[string]int
	skippedInit map[string]int
	queries, sat, unsat, unknown int
	assertQ, assertUnsat         int
	solverTime                   time.Duration
	maxPaths                     int
	stop                         bool
	maxDepthSeen                 int
	firstViol                    time.Time
	restarts                     int
	concrete                     map[string]uint64
	cfg                          RunConfig
}

const violGrace = 90 * time.Second

type RunConfig struct {
	Tier       string
	Seed       int64
	Workers    int
	Solver     string
	TimeoutMs  int
	MaxPaths   int
	MaxSteps   int64
	MaxDepth   int
	Trace      bool
	OnlyPrefix []byte
	MaxPreempt int
}

type Machine struct {
	p      *Program
	hr     *HarnessRun
	tc     *TermCtx
	solver *Solver

	globals map[*ssa.Global]*Value
	inited  map[*ssa.Package]bool
	inInit  int

	pc       []*Term
	asserted int
	prefix   []byte
	pos      int
	trace_   []byte

	steps     int64
	maxSteps  int64
	maxDepth  int
	depth     int
	nextObj   int
	nextFake  uint64
	fakePtrs  map[uint64]Value
	addrObjs  map[uint64]*ByteObj
	concrete  map[string]uint64
	fixRandom bool
	concBound int
	crcBound  int
	copyBound int

	inputs    []*Term
	blocks    []blockInput
	nameCount map[string]int
	reached   []string
	observes  []obsRec
	errInfo   map[*Value]*errRec
	syncMaps  map[*Value]*Map
	noPanic   int
	mayPanic  int

	funcs   map[*ssa.Function]int
	natives map[*ssa.Function]int

	trace  bool
	traceW io.Writer

	sched *scheduler
	mutexes map[*Value]*mutexState
	wgs map[*Value]*wgState
	conds map[*Value]*condState
	nchoice int
	atomicSection int
	ss simplState
	loopBounds []loopBound
}

func (m *Machine) noteFunc(fn *ssa.Function, native bool) {
	if native {
		m.natives[fn]++
	} else {
		m.funcs[fn]++
	}
}

func (m *Machine) syncSolver() {
	for m.asserted < len(m.pc) {
		m.solver.Assert(m.tc, m.pc[m.asserted])
		m.asserted++
	}
}

func (m *Machine) check(extra *Term) SatResult {
	m.syncSolver()
	r, msg := m.solver.Check(m.tc, extra, false)
	if r == ResUnknown || r == ResError {
		panic(engineErr{fmt.Sprintf("solver answered %s %s", r, msg)})
	}
	return r
}

func (m *Machine) pushDecision(d byte) {
	m.trace_ = append(m.trace_, d)
	if len(m.trace_) > m.maxDepth {
		panic(pathEnd{"depth-budget"})
	}
}

func (m *Machine) cut(what string) {
	m.hr.mu.Lock()
	m.hr.cuts[what]++
	m.hr.mu.Unlock()
	panic(pathEnd{"cut"})
}

// model extracts the values of all inputs under the current path condition plus extra.
func (m *Machine) model(extra *Term, also []*Term) (map[string]uint64, map[string][]byte, []uint64, bool) {
	m.syncSolver()
	var terms []*Term
	terms = append(terms, m.inputs...)
	for _, b := range m.blocks {
		for i := 0; i < b.n; i++ {
			terms = append(terms, m.tc.Select(b.arr, Const(64, uint64(i))))
		}
	}
	terms = append(terms, also...)
	for _, t := range terms {
		m.solver.pr.Define(t)
	}
	m.solver.declareUFs(m.tc)
	r, msg := m.solver.Check(m.tc, extra, true)
	if r == ResUnknown || r == ResError {
		panic(engineErr{fmt.Sprintf("solver answered %s %s (model query)", r, msg)})
	}
	if r == ResUnsat {
		return nil, nil, nil, false
	}
	vals, err := m.solver.GetValues(m.tc, terms)
	if extra != nil {
		m.solver.PopKeep()
	}
	if err != nil {
		panic(engineErr{"get-value failed: " + err.Error()})
	}
	assign := map[string]uint64{}
	for i, in := range m.inputs {
		assign[in.name] = vals[i]
	}
	k := len(m.inputs)
	var blocks map[string][]byte
	for _, b := range m.blocks {
		if blocks == nil {
			blocks = map[string][]byte{}
		}
		bb := make([]byte, b.n)
		for i := 0; i < b.n; i++ {
			bb[i] = byte(vals[k])
			k++
		}
		blocks[b.name] = bb
	}
	return assign, blocks, vals[k:], true
}

func (m *Machine) assertProp(fr *frame, c *Term, tag string) {
	hr := m.hr
	if c.op == OpConst && c.val != 0 {
		return
	}
	c = m.simp(c)
	if c.op == OpConst && c.val != 0 {
		return
	}
	// replayed prefix: the decision records whether the assertion was violated here before
	if m.pos < len(m.prefix) {
		d := m.prefix[m.pos]
		m.pos++
		m.trace_ = append(m.trace_, d)
		if d == 2 {
			// assertion could fail and could hold: continue on the holding side
			m.addPC(c)
			return
		}
		if d == 0 {
			panic(pathEnd{"assert-fails-always"})
		}
		return // d == 1: proved on this prefix
	}
	hr.mu.Lock()
	hr.assertQ++
	hr.mu.Unlock()
	var assign map[string]uint64
	var blocks map[string][]byte
	var ok bool
	if hr.haveViolation("assert:" + tag) {
		// this assertion already has a recorded counterexample: decide feasibility only
		// (no model extraction), so that the remaining exploration stays cheap
		if c.op == OpConst {
			m.pos++
			m.pushDecision(0)
			panic(pathEnd{"assert-fails-always"})
		}
		fails := m.check(m.tc.BNot(c)) == ResSat
		m.pos++
		if !fails {
			hr.mu.Lock()
			hr.assertUnsat++
			hr.mu.Unlock()
			m.pushDecision(1)
			return
		}
		if m.check(c) == ResUnsat {
			m.pushDecision(0)
			panic(pathEnd{"assert-fails-always"})
		}
		m.pushDecision(2)
		m.addPC(c)
		return
	}
	if c.op == OpConst {
		assign, blocks, _, ok = m.model(nil, nil)
		if !ok {
			panic(engineErr{"path condition unsatisfiable at assertion"})
		}
	} else {
		assign, blocks, _, ok = m.model(m.tc.BNot(c), nil)
	}
	m.pos++
	if !ok {
		hr.mu.Lock()
		hr.assertUnsat++
		hr.mu.Unlock()
		m.pushDecision(1)
		return
	}
	hr.recordViolation(&Violation{Harness: hr.name, Tag: tag, Kind: "assert", Msg: "assertion " + tag + " can fail", Where: m.where(fr), Assign: assign, Blocks: blocks})
	if c.op == OpConst {
		m.pushDecision(0)
		panic(pathEnd{"assert-fails-always"})
	}
	if m.check(c) == ResUnsat {
		m.pushDecision(0)
		panic(pathEnd{"assert-fails-always"})
	}
	m.pushDecision(2)
	m.addPC(c)
}

func (hr *HarnessRun) haveViolation(key string) bool {
	hr.mu.Lock()
	defer hr.mu.Unlock()
	_, ok := hr.viol[key]
	return ok
}

func (hr *HarnessRun) recordViolation(v *Violation) {
	hr.mu.Lock()
	defer hr.mu.Unlock()
	key := v.Kind + ":" + v.Tag
	if _, ok := hr.viol[key]; !ok {
		hr.viol[key] = v
		if hr.firstViol.IsZero() {
			hr.firstViol = time.Now()
		}
		if os.Getenv("VERIF_PROGRESS") != "" {
			fmt.Fprintf(os.Stderr, "[violation %s %s: %s at %s assign=%v]\n", v.Kind, v.Tag, v.Msg, v.Where, v.Assign)
		}
	}
}

func (hr *HarnessRun) push(prefix []byte) {
	hr.mu.Lock()
	hr.work = append(hr.work, prefix)
	hr.mu.Unlock()
	hr.cond.Signal()
}

func (hr *HarnessRun) pop() ([]byte, bool) {
	hr.mu.Lock()
	defer hr.mu.Unlock()
	for {
		if hr.stop {
			return nil, false
		}
		if n := len(hr.work); n > 0 {
			p := hr.work[n-1]
			hr.work = hr.work[:n-1]
			hr.active++
			return p, true
		}
		if hr.active == 0 {
			hr.cond.Broadcast()
			return nil, false
		}
		hr.cond.Wait()
	}
}

func (hr *HarnessRun) done() {
	hr.mu.Lock()
	hr.active--
	if hr.active == 0 && len(hr.work) == 0 {
		hr.cond.Broadcast()
	}
	hr.mu.Unlock()
}

func newMachine(hr *HarnessRun, solver *Solver, prefix []byte) *Machine {
	m := &Machine{
		p: hr.p, hr: hr, tc: NewTermCtx(), solver: solver,
		globals: map[*ssa.Global]*Value{}, inited: map[*ssa.Package]bool{},
		prefix: prefix, maxSteps: hr.cfg.MaxSteps, maxDepth: hr.cfg.MaxDepth,
		fakePtrs: map[uint64]Value{}, concBound: 64, copyBound: 16,
		nameCount: map[string]int{}, errInfo: map[*Value]*errRec{},
		funcs: map[*ssa.Function]int{}, natives: map[*ssa.Function]int{},
	}
	if hr.cfg.Trace {
		m.trace = true
		m.traceW = os.Stderr
	}
	return m
}

// runPath executes one path of the harness.
func (hr *HarnessRun) runPath(solver *Solver, prefix []byte) string {
	solver.Reset()
	m := newMachine(hr, solver, prefix)
	m.concrete = hr.concrete
	reason := ""
	func() {
		defer func() {
			r := recover()
			if r == nil {
				return
			}
			switch r := r.(type) {
			case pathEnd:
				reason = r.reason
			case engineErr:
				if solver.dead && hr.restarts < 64 {
					// the solver process died (killed, out of memory): the path is re-run on a fresh one
					reason = "solver-restart"
					hr.mu.Lock()
					hr.restarts++
					hr.mu.Unlock()
					return
				}
				reason = "engine-error"
				hr.mu.Lock()
				if len(hr.errs) < 20 {
					hr.errs = append(hr.errs, r.msg)
				}
				hr.mu.Unlock()
			case *targetPanic:
				// a panic escaped the harness: violation unless inside MayPanic (handled there)
				reason = "panic"
				if hr.haveViolation("panic:unexpected-panic") {
					return
				}
				assign, blocks, _, ok := m.model(nil, nil)
				if !ok {
					hr.mu.Lock()
					hr.errs = append(hr.errs, "path condition unsat at escaped panic: "+r.msg)
					hr.mu.Unlock()
					return
				}
				hr.recordViolation(&Violation{Harness: hr.name, Tag: "unexpected-panic", Kind: "panic", Msg: r.msg, Where: r.pos, Assign: assign, Blocks: blocks})
			default:
				reason = "engine-error"
				hr.mu.Lock()
				if len(hr.errs) < 20 {
					hr.errs = append(hr.errs, fmt.Sprintf("internal: %v at %s", r, shortStack()))
				}
				hr.mu.Unlock()
			}
		}()
		m.runMain(hr.fn)
		reason = "completed"
	}()
	// witnesses
	if reason == "completed" && len(m.reached) > 0 {
		need := false
		hr.mu.Lock()
		for _, t := range m.reached {
			hr.reached[t]++
			if _, ok := hr.witness[t]; !ok {
				need = true
			}
		}
		hr.mu.Unlock()
		if need {
			func() {
				defer func() {
					if r := recover(); r != nil {
						if ee, ok := r.(engineErr); ok {
							hr.mu.Lock()
							hr.errs = append(hr.errs, "witness: "+ee.msg)
							hr.mu.Unlock()
							return
						}
						panic(r)
					}
				}()
				var obsTerms []*Term
				for _, o := range m.observes {
					obsTerms = append(obsTerms, o.terms...)
				}
				assign, blocks, ov, ok := m.model(nil, obsTerms)
				if !ok {
					return
				}
				w := &Witness{Harness: hr.name, Tags: m.reached, Assign: assign, Blocks: blocks}
				k := 0
				for _, o := range m.observes {
					var parts []string
					for range o.terms {
						parts = append(parts, fmt.Sprintf("%d", ov[k]))
						k++
					}
					w.Observes = append(w.Observes, o.tag+"="+strings.Join(parts, ","))
				}
				hr.mu.Lock()
				for _, t := range m.reached {
					if _, ok := hr.witness[t]; !ok {
						hr.witness[t] = w
					}
				}
				hr.mu.Unlock()
			}()
		}
	}
	if reason == "solver-restart" {
		return reason
	}
	hr.mu.Lock()
	hr.paths++
	hr.ended[reason]++
	hr.steps += m.steps
	if len(m.trace_) > hr.maxDepthSeen {
		hr.maxDepthSeen = len(m.trace_)
	}
	for f, n := range m.funcs {
		hr.funcs[f.String()] += n
	}
	for f, n := range m.natives {
		hr.natives[f.String()] += n
	}
	if !hr.firstViol.IsZero() && time.Since(hr.firstViol) > violGrace && len(hr.work) > 0 && !hr.stop {
		// a counterexample exists; the verdict cannot become "held". Exploration continues for a
		// grace period to collect other violations, then stops.
		hr.stop = true
		hr.ended["stopped-after-violation"]++
		hr.cond.Broadcast()
	}
	if hr.paths >= hr.maxPaths && len(hr.work) > 0 {
		hr.stop = true
		hr.ended["path-budget"]++
		hr.cond.Broadcast()
	}
	hr.mu.Unlock()
	return reason
}

func shortStack() string {
	buf := make([]byte, 1<<16)
	buf = buf[:runtime.Stack(buf, false)]
	lines := strings.Split(string(buf), "\n")
	var out []string
	for _, l := range lines {
		l = strings.TrimSpace(l)
		if strings.HasPrefix(l, "/verif/engine/") {
			if i := strings.Index(l, " +0x"); i > 0 {
				l = l[:i]
			}
			out = append(out, strings.TrimPrefix(l, "/verif/engine/"))
			if len(out) >= 8 {
				break
			}
		}
	}
	return strings.Join(out, " < ")
}

func (m *Machine) runMain(fn *ssa.Function) {
	if m.p.concurrent(fn) {
		m.runConcurrent(fn)
		return
	}
	m.callSSA(nil, token.NoPos, fn, nil, nil)
}

func (p *Program) Explore(fn *ssa.Function, cfg RunConfig) *HarnessRun {
	hr := &HarnessRun{
		p: p, fn: fn, name: fn.Name(), ended: map[string]int{}, cuts: map[string]int{},
		viol: map[string]*Violation{}, witness: map[string]*Witness{}, reached: map[string]int{},
		funcs: map[string]int{}, natives: map[string]int{}, skippedInit: map[string]int{}, maxPaths: cfg.MaxPaths, cfg: cfg,
	}
	hr.cond = sync.NewCond(&hr.mu)
	if cfg.OnlyPrefix != nil {
		hr.work = [][]byte{cfg.OnlyPrefix}
	} else {
		hr.work = [][]byte{nil}
	}
	if os.Getenv("VERIF_PROGRESS") != "" {
		stopProg := make(chan struct{})
		defer close(stopProg)
		go func() {
			t0 := time.Now()
			for {
				select {
				case <-stopProg:
					return
				case <-time.After(10 * time.Second):
					hr.mu.Lock()
					fmt.Fprintf(os.Stderr, "[%s %.0fs] paths=%d queued=%d active=%d ends=%v viol=%d errs=%d\n", hr.name, time.Since(t0).Seconds(), hr.paths, len(hr.work), hr.active, hr.ended, len(hr.viol), len(hr.errs))
					hr.mu.Unlock()
				}
			}
		}()
	}
	var wg sync.WaitGroup
	for w := 0; w < cfg.Workers; w++ {
		wg.Add(1)
		go func() {
			defer wg.Done()
			solver, err := NewSolver(cfg.Solver, cfg.TimeoutMs)
			if err != nil {
				hr.mu.Lock()
				hr.errs = append(hr.errs, "cannot start solver: "+err.Error())
				hr.stop = true
				hr.mu.Unlock()
				hr.cond.Broadcast()
				return
			}
			defer func() { solver.Close() }()
			for {
				prefix, ok := hr.pop()
				if !ok {
					break
				}
				why := hr.runPath(solver, prefix)
				if solver.dead {
					solver.Close()
					ns, err := NewSolver(cfg.Solver, cfg.TimeoutMs)
					if err == nil {
						ns.Queries, ns.Sat, ns.Unsat, ns.Unknown, ns.Time = solver.Queries, solver.Sat, solver.Unsat, solver.Unknown, solver.Time
						solver = ns
						if why == "solver-restart" {
							hr.push(prefix)
						}
					}
				}
				hr.done()
			}
			hr.mu.Lock()
			hr.queries += solver.Queries
			hr.sat += solver.Sat
			hr.unsat += solver.Unsat
			hr.unknown += solver.Unknown
			hr.solverTime += solver.Time
			hr.mu.Unlock()
		}()
	}
	wg.Wait()
	return hr
}

func (hr *HarnessRun) Inconclusive() []string {
	var why []string
	for _, r := range []string{"engine-error", "step-budget", "depth-budget", "path-budget"} {
		if n := hr.ended[r]; n > 0 {
			why = append(why, fmt.Sprintf("%s x%d", r, n))
		}
	}
	sort.Strings(hr.errs)
	seen := map[string]bool{}
	for _, e := range hr.errs {
		if !seen[e] {
			seen[e] = true
			why = append(why, e)
		}
	}
	return why
}

// ReplayConcrete re-executes the harness in the interpreter with every input (data and
// scheduling choices) fixed to the counterexample's values - no solver decision is involved -
// and reports whether the same violation occurs. Used for concurrent harnesses, whose
// schedules cannot be forced on a native run.
func (p *Program) ReplayConcrete(fn *ssa.Function, cfg RunConfig, v *Violation) bool {
	hr := &HarnessRun{
		p: p, fn: fn, name: fn.Name(), ended: map[string]int{}, cuts: map[string]int{},
		viol: map[string]*Violation{}, witness: map[string]*Witness{}, reached: map[string]int{},
		funcs: map[string]int{}, natives: map[string]int{}, skippedInit: map[string]int{}, maxPaths: 1, cfg: cfg,
		concrete: v.Assign,
	}
	hr.cond = sync.NewCond(&hr.mu)
	solver, err := NewSolver(cfg.Solver, cfg.TimeoutMs)
	if err != nil {
		return false
	}
	defer solver.Close()
	hr.runPath(solver, nil)
	_, ok := hr.viol[v.Kind+":"+v.Tag]
	return ok
}
