package main

func init() {
	// MaxPreempt(k): the preemption bound of this (concurrent) harness, overriding the property's default.
	symNatives["MaxPreempt"] = func(m *Machine, fr *frame, a []Value) Value {
		if m.sched != nil {
			m.sched.maxPreempt = int(m.mustConst(a[0], "MaxPreempt"))
		}
		return nil
	}
	// FixRandom(): math/rand draws return a fixed value (skiplist towers of height 1) instead of a symbolic choice.
	symNatives["FixRandom"] = func(m *Machine, fr *frame, a []Value) Value {
		m.fixRandom = true
		return nil
	}
	// Atomic(f): one scheduling point, then f runs without preemption (harness monitors).
	symNatives["Atomic"] = func(m *Machine, fr *frame, a []Value) Value {
		m.visible(fr, "harness-atomic")
		m.atomicSection++
		defer func() { m.atomicSection-- }()
		m.call(fr, 0, a[0], nil)
		return nil
	}
	// CrcBound(k): checksummed data of symbolic length < k is case-split by length; longer
	// data gets the range-UF over-approximation (k = 0 restores the ConcBound default).
	symNatives["CrcBound"] = func(m *Machine, fr *frame, a []Value) Value {
		m.crcBound = int(m.mustConst(a[0], "CrcBound")) + 1
		return nil
	}
	symNatives["LoopBound"] = func(m *Machine, fr *frame, a []Value) Value {
		s, _ := m.strVal(a[0]).(string)
		m.loopBounds = append(m.loopBounds, loopBound{substr: s, k: int(m.mustConst(a[1], "LoopBound k")), onCut: a[2]})
		return nil
	}
}
