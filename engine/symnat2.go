package main

func init() {
	symNatives["LoopBound"] = func(m *Machine, fr *frame, a []Value) Value {
		s, _ := m.strVal(a[0]).(string)
		m.loopBounds = append(m.loopBounds, loopBound{substr: s, k: int(m.mustConst(a[1], "LoopBound k")), onCut: a[2]})
		return nil
	}
}
