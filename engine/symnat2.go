package main

func init() {
	// Atomic(f): one scheduling point, then f runs without preemption (harness monitors).
	symNatives["Atomic"] = func(m *Machine, fr *frame, a []Value) Value {
		m.visible(fr, "harness-atomic")
		m.atomicSection++
		defer func() { m.atomicSection-- }()
		m.call(fr, 0, a[0], nil)
		return nil
	}
	// CrcBound(k): checksummed data of symbolic length < k is case-split by length; longer
	// data gets the range-UF over-approximation (k = 0 restores the ConcBound default).
	symNatives["CrcBound"] = func(m *Machine, fr *frame, a []Value) Value {
		m.crcBound = int(m.mustConst(a[0], "CrcBound")) + 1
		return nil
	}
	symNatives["LoopBound"] = func(m *Machine, fr *frame, a []Value) Value {
		s, _ := m.strVal(a[0]).(string)
		m.loopBounds = append(m.loopBounds, loopBound{substr: s, k: int(m.mustConst(a[1], "LoopBound k")), onCut: a[2]})
		return nil
	}
}
