package sstable

import "github.com/cockroachdb/pebble/internal/crc"

func hCRC2(a, b []byte) uint32 { return crc.CRC(0).Update(a).Update(b).Value() }
