package sstable

import (
	sym "github.com/cockroachdb/pebble/internal/verifsym"
	"github.com/cockroachdb/pebble/sstable/block"
)

var hFormats = []TableFormat{
	TableFormatLevelDB, TableFormatRocksDBv2, TableFormatPebblev1, TableFormatPebblev4,
	TableFormatPebblev5, TableFormatPebblev6, TableFormatPebblev7, TableFormatPebblev8,
}

// wide: all four handle fields are symbolic 32-bit values (every varint length combination);
// otherwise only the metaindex offset is, the others stay below 128.
func hFooter(wide bool) (footer, int64) {
	var f footer
	f.format = hFormats[sym.Choose("format", len(hFormats))]
	f.checksum = block.ChecksumTypeCRC32c
	if f.format != TableFormatLevelDB && sym.Bool("xxhash64") {
		f.checksum = block.ChecksumTypeXXHash64
	}
	size := int64(sym.U32("file-size")) + int64(f.format.FooterSize())
	f.metaindexBH = block.Handle{Offset: uint64(sym.U32("meta-offset")), Length: uint64(sym.U32("meta-length"))}
	f.indexBH = block.Handle{Offset: uint64(sym.U32("index-offset")), Length: uint64(sym.U32("index-length"))}
	if !wide {
		sym.Assume(sym.And(f.metaindexBH.Length < 128, sym.And(f.indexBH.Offset < 128, f.indexBH.Length < 128)))
	}
	sym.Assume(f.metaindexBH.Offset+f.metaindexBH.Length <= uint64(size))
	sym.Assume(f.indexBH.Offset+f.indexBH.Length <= uint64(size))
	if f.format >= TableFormatPebblev7 {
		f.attributes = Attributes(sym.U32("attributes"))
	}
	return f, size
}

// VerifHarness_C27_FooterRoundTrip: a footer with symbolic block handles,
// attributes and checksum type, in every footer layout, parses back to itself.
func VerifHarness_C27_FooterRoundTrip() {
	f, size := hFooter(sym.Thorough())
	buf := f.encode(make([]byte, maxFooterLen))
	off := size - int64(len(buf))
	got, err := parseFooter(buf, off, size)
	sym.Assert(err == nil, "encoded-footer-parses")
	sym.Assert(got.format == f.format && got.checksum == f.checksum, "format-and-checksum-type")
	sym.Assert(got.metaindexBH == f.metaindexBH && got.indexBH == f.indexBH, "block-handles")
	sym.Assert(got.attributes == f.attributes, "attributes")
	sym.Assert(got.footerBH.Offset == uint64(off) && got.footerBH.Length == uint64(len(buf)), "footer-handle")
	sym.Reach("footer")
}

// VerifHarness_C27_FooterCorruption: in the checksummed footer layouts a footer
// in which one byte was altered (any position before the version/magic field,
// any other value) is rejected - it never parses to different handles or
// attributes, and never panics. Idealised checksum: altered covered bytes change
// the CRC (no collision). An alteration of the version field itself selects
// another footer layout (possibly an unchecked one); what that layout then
// points at is protected by the block checksums, outside this harness.
func VerifHarness_C27_FooterCorruption() {
	f, size := hFooter(false)
	sym.Assume(f.format >= TableFormatPebblev6)
	buf := f.encode(make([]byte, maxFooterLen))
	off := size - int64(len(buf))
	orig := append([]byte(nil), buf...)
	i := sym.Choose("altered-offset", len(buf)-versionLen-magicLen)
	nv := sym.U8("altered-value")
	sym.Assume(nv != buf[i])
	buf[i] = nv
	// the no-collision idealisation, stated before the code it constrains
	sym.Assume(hFooterCRC(buf, f.format) != hFooterCRC(orig, f.format))
	var err error
	sym.NoPanic("parse-altered-footer", func() { _, err = parseFooter(buf, off, size) })
	sym.Assert(err != nil, "altered-footer-is-rejected")
	sym.Reach("rejected")
}

func hFooterCRC(buf []byte, format TableFormat) uint32 {
	o := checkedPebbleDBChecksumOffset
	if format >= TableFormatPebblev7 {
		o = pebbleDBv7FooterChecksumOffset
	}
	return hCRC2(buf[:o], buf[o+checksumLen:])
}
