package batchrepr

import (
	"github.com/cockroachdb/pebble/internal/base"
	sym "github.com/cockroachdb/pebble/internal/verifsym"
)

// VerifHarness_C31_ReaderNoPanic: decoding arbitrary bytes through the batch
// reader never panics, makes progress, and consumes exactly what it reports.
func VerifHarness_C31_ReaderNoPanic() {
	max := 20
	if sym.Thorough() {
		max = 23
	}
	data := sym.Bytes("repr", max)
	sym.NoPanic("reader", func() {
		h, ok := ReadHeader(data)
		if !ok {
			sym.Assert(len(data) < HeaderLen, "header-rejected-only-when-short")
			sym.Reach("short")
			return
		}
		sym.Observe("hdr", uint64(h.SeqNum), h.Count)
		r := Read(data)
		total := 0
		for {
			before := len(r)
			kind, k, v, ok, err := r.Next()
			if !ok {
				sym.Assert(err != nil || before == 0, "clean-end-only-when-exhausted")
				sym.Observe("end", err != nil, total)
				sym.Reach("end")
				return
			}
			total++
			sym.Assert(err == nil, "ok-implies-no-error")
			sym.Assert(kind <= base.InternalKeyKindMax, "kind-in-range")
			sym.Assert(len(r) < before, "progress")
			used := before - len(r)
			// 1 kind byte + 1-byte varint + key [+ 1-byte varint + value] at these sizes
			sym.Assert(used == 2+len(k) || (used == 3+len(k)+len(v)), "consumed-accounting")
			sym.Observe("entry", uint8(kind), k, v)
			sym.Reach("entry")
		}
	})
}

// VerifHarness_C31_DecodeStrBoundary: DecodeStr around the 128-byte fast-path
// boundary (symbolic length 120..139): the unsafe multi-byte varint loads stay
// inside the buffer and the result is a split of the input.
func VerifHarness_C31_DecodeStrBoundary() {
	n := sym.Range("len", 120, 139)
	buf := sym.Block("data", 140)
	data := buf[:n]
	sym.NoPanic("decodestr", func() {
		rest, s, ok := DecodeStr(data)
		if ok {
			hdr := len(data) - len(rest) - len(s)
			sym.Assert(hdr >= 1 && hdr <= 5, "varint-1-to-5-bytes")
			sym.Assert(len(data) > 128 || hdr == 1, "short-input-single-byte-varint")
			sym.Reach("ok")
		} else {
			sym.Reach("rejected")
		}
	})
}

// VerifHarness_C31_BlobIDs: DecodeBlobFileIDs on arbitrary bytes never panics
// and never allocates more than the input can justify.
func VerifHarness_C31_BlobIDs() {
	max := 6
	if sym.Thorough() {
		max = 9
	}
	data := sym.Bytes("value", max)
	sym.NoPanic("blobids", func() {
		ids, ok := DecodeBlobFileIDs(data)
		if ok {
			sym.Assert(len(ids) < len(data) || len(ids) == 0, "count-bounded-by-input")
			sym.Reach("ok")
		} else {
			sym.Assert(ids == nil, "nil-on-failure")
			sym.Reach("rejected")
		}
	})
}
