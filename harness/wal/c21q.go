package wal

import (
	"encoding/binary"

	sym "github.com/cockroachdb/pebble/internal/verifsym"
)

// The failover writer's queue of records that are not yet known to be synced:
// on a switch to another log file exactly these records are written again, in
// order (snapshotAndSwitchWriter), so that the logical WAL holds every batch
// once. The queue is a ring buffer that doubles when full.

func hQueueEntry(i uint32) []byte {
	p := make([]byte, 4)
	binary.LittleEndian.PutUint32(p, i)
	return p
}

// hQueueState builds a queue in an arbitrary valid state: buffer length m (2
// or 4), n <= m queued records with indices [tail, tail+n), record i in slot
// i % m - the representation invariant the harnesses re-establish.
func hQueueState() (q *recordQueue, t, n uint32) {
	m := uint32(2 << uint(sym.Choose("buffer-len", 2)))
	q = &recordQueue{buffer: make([]recordQueueEntry, m)}
	t = sym.U32("tail")
	n = sym.U32("queued")
	sym.Assume(n <= m)
	sym.Assume(t <= 0xFFFFFFF0) // indices do not wrap (4 billion records per WAL are outside)
	q.headTail.Store(uint64(t+n)<<headTailBits | uint64(t))
	reclaimed := sym.U32("reclaimed-up-to")
	sym.Assume(reclaimed <= t && t-reclaimed <= m-n)
	q.lastTailObservedByProducer = reclaimed
	for k := uint32(0); k < n; k++ {
		q.buffer[(t+k)%m] = recordQueueEntry{p: hQueueEntry(t + k)}
	}
	return q, t, n
}

// hQueueHolds asserts that the queue holds exactly records [t, t+n) in order - through the
// snapshot a writer switch takes, and through the representation invariant.
func hQueueHolds(q *recordQueue, t, n uint32, tag string) {
	h, tl := unpackHeadTail(q.headTail.Load())
	sym.Assert(tl == t && h == t+n, tag+"-head-tail")
	sym.Assert(q.length() == int(n), tag+"-length")
	called := false
	q.snapshotAndSwitchWriter(nil, func(first uint32, entries []recordQueueEntry) int64 {
		called = true
		sym.Assert(first == t, tag+"-snapshot-first-index")
		sym.Assert(len(entries) == int(n), tag+"-snapshot-length")
		for k := range entries {
			p := entries[k].p
			sym.Assert(len(p) == 4, tag+"-snapshot-entry-present")
			if len(p) == 4 {
				sym.Assert(binary.LittleEndian.Uint32(p) == t+uint32(k), tag+"-snapshot-entry-in-order")
			}
		}
		return 0
	})
	sym.Assert(called == (n > 0), tag+"-snapshot-taken")
	m := uint32(len(q.buffer))
	sym.Assert(n <= m, tag+"-fits")
	for k := uint32(0); k < n && k < 8; k++ {
		p := q.buffer[(t+k)%m].p
		sym.Assert(len(p) == 4 && binary.LittleEndian.Uint32(p) == t+k, tag+"-slot-invariant")
	}
}

// VerifHarness_C21_RecordQueuePush: one push from any valid state - full
// (the buffer doubles) or not - leaves the queue holding the old records and
// the new one, in order, each in its slot.
func VerifHarness_C21_RecordQueuePush() {
	q, t, n := hQueueState()
	idx, _, _ := q.push(hQueueEntry(t+n), SyncOptions{}, nil, 0, 0, nil)
	sym.Assert(idx == t+n, "push-returns-the-record-index")
	hQueueHolds(q, t, n+1, "after-push")
	sym.Reach("pushed")
}

// VerifHarness_C21_RecordQueuePopPush: a pop up to any queued index, then two
// pushes (the second may grow a buffer whose tail is not a multiple of its length).
func VerifHarness_C21_RecordQueuePopPush() {
	q, t, n := hQueueState()
	sym.Assume(n > 0)
	upto := sym.U32("pop-up-to")
	sym.Assume(upto >= t && upto < t+n)
	q.pop(upto, nil)
	popped := upto - t + 1
	hQueueHolds(q, upto+1, n-popped, "after-pop")
	q.push(hQueueEntry(t+n), SyncOptions{}, nil, 0, 0, nil)
	q.push(hQueueEntry(t+n+1), SyncOptions{}, nil, 0, 0, nil)
	hQueueHolds(q, upto+1, n-popped+2, "after-pop-and-pushes")
	sym.Reach("popped-and-pushed")
}
