package wal

import (
	"bytes"
	"encoding/binary"
	"io"

	"github.com/cockroachdb/pebble/batchrepr"
	"github.com/cockroachdb/pebble/internal/base"
	sym "github.com/cockroachdb/pebble/internal/verifsym"
	"github.com/cockroachdb/pebble/record"
	"github.com/cockroachdb/pebble/vfs"
)

// hSegFS serves the segment files of one logical WAL from memory.
type hSegFS struct {
	vfs.FS
	files map[string][]byte
}

func (f *hSegFS) PathJoin(elem ...string) string { return elem[len(elem)-1] }
func (f *hSegFS) Open(name string, opts ...vfs.OpenOption) (vfs.File, error) {
	data, ok := f.files[name]
	if !ok {
		return nil, io.ErrUnexpectedEOF
	}
	return &hSegFile{r: bytes.NewReader(data)}, nil
}

type hSegFile struct {
	vfs.File
	r *bytes.Reader
}

func (f *hSegFile) Read(p []byte) (int, error) { return f.r.Read(p) }
func (f *hSegFile) Close() error               { return nil }

type hSink struct{ buf []byte }

func (s *hSink) Write(p []byte) (int, error) { s.buf = append(s.buf, p...); return len(p), nil }

type hBatch struct {
	seq   base.SeqNum
	count uint32
}

func hBatchRepr(b hBatch) []byte {
	r := make([]byte, batchrepr.HeaderLen)
	binary.LittleEndian.PutUint64(r[:8], uint64(b.seq))
	binary.LittleEndian.PutUint32(r[8:], b.count)
	return r
}

// hSegment writes batches[from:to] with the real record writer and returns the file image and the
// end offset of every record.
func hSegment(batches []hBatch, from, to int) (file []byte, ends []int) {
	sink := &hSink{}
	w := record.NewWriter(sink)
	for _, b := range batches[from:to] {
		_, err := w.WriteRecord(hBatchRepr(b))
		sym.Assert(err == nil, "segment-write")
		sym.Assert(w.Flush() == nil, "segment-flush")
		ends = append(ends, len(sink.buf))
	}
	sym.Assert(w.Close() == nil, "segment-close")
	return sink.buf, ends
}

// VerifHarness_C21_FailoverReplay: a logical WAL split over two segment files
// the way a failover leaves it - the first segment holds a run of batches and
// may be cut at any byte, the second starts at or before the first batch the
// first segment lost, repeating what it likes - is replayed by the real
// virtual WAL reader as every batch with a non-zero count exactly once, in
// sequence-number order, and nothing else.
func VerifHarness_C21_FailoverReplay() {
	n := 2 + sym.Choose("batches", 2)
	batches := make([]hBatch, n)
	next := base.SeqNum(1)
	for i := range batches {
		// a batch starts at or after the end of the previous one; a count-zero (LogData) batch
		// consumes no sequence numbers, so the batch after it may carry the same number
		batches[i].seq = next + base.SeqNum(sym.U8("seq-gap"))
		batches[i].count = uint32(sym.U8("count")) & 3 // zero = a batch holding only LogData
		next = batches[i].seq + base.SeqNum(batches[i].count)
	}
	k := 1 + sym.Choose("in-first-segment", n) // the first segment holds batches [0, k)
	seg0, ends0 := hSegment(batches, 0, k)
	cut := sym.Choose("cut", len(seg0)+1)
	seg0 = seg0[:cut]
	intact := 0
	for _, e := range ends0 {
		if e <= cut {
			intact++
		}
	}
	j := sym.Choose("second-segment-starts-at", intact+1) // no batch is lost: j <= intact
	seg1, _ := hSegment(batches, j, n)

	const num = NumWAL(7)
	fs := &hSegFS{files: map[string][]byte{
		makeLogFilename(num, 0): seg0,
		makeLogFilename(num, 1): seg1,
	}}
	dir := Dir{FS: fs}
	ll := LogicalLog{Num: num, segments: []segment{{logNameIndex: 0, dir: dir}, {logNameIndex: 1, dir: dir}}}
	r := newVirtualWALReader(ll)

	want := 0
	for {
		rec, _, err := r.NextRecord()
		if err != nil {
			sym.Assert(err == io.EOF, "clean-end-of-log")
			break
		}
		data, rerr := io.ReadAll(rec)
		sym.Assert(rerr == nil, "record-readable")
		h, ok := batchrepr.ReadHeader(data)
		sym.Assert(ok, "batch-header")
		for want < n && batches[want].count == 0 {
			want++ // count-zero batches are not replayed
		}
		sym.Assert(want < n, "no-extra-batch")
		if want >= n {
			return
		}
		sym.Assert(h.SeqNum == batches[want].seq && h.Count == batches[want].count, "batches-in-order-exactly-once")
		want++
	}
	for want < n && batches[want].count == 0 {
		want++
	}
	sym.Assert(want == n, "no-batch-lost")
	sym.Assert(r.Close() == nil, "close")
	sym.Reach("replayed")
}
