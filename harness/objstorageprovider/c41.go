package objstorageprovider

import (
	"context"
	"io"
	"sort"
	"strings"

	"github.com/cockroachdb/errors"
	"github.com/cockroachdb/pebble/internal/base"
	sym "github.com/cockroachdb/pebble/internal/verifsym"
	"github.com/cockroachdb/pebble/objstorage"
	"github.com/cockroachdb/pebble/objstorage/remote"
)

// hStore is the shared object store: a set of object names. Every operation is
// one atomic step of the concurrent harness (a scheduling point).
type hStore struct {
	remote.Storage
	objs    map[string]bool
	deleted []string // names deleted, in order
}

var errHNotExist = errors.New("verif: object does not exist")

type hNopWriter struct{}

func (hNopWriter) Write(p []byte) (int, error) { return len(p), nil }
func (hNopWriter) Close() error                { return nil }

func (s *hStore) CreateObject(name string) (w io.WriteCloser, err error) {
	sym.Atomic(func() { s.objs[name] = true })
	return hNopWriter{}, nil
}
func (s *hStore) List(prefix, delimiter string) (out []string, err error) {
	sym.Atomic(func() {
		for n := range s.objs {
			if strings.HasPrefix(n, prefix) {
				out = append(out, n)
			}
		}
		sort.Strings(out)
	})
	return out, nil
}
func (s *hStore) Delete(name string) (err error) {
	sym.Atomic(func() {
		if !s.objs[name] {
			err = errHNotExist
			return
		}
		delete(s.objs, name)
		s.deleted = append(s.deleted, name)
	})
	return err
}
func (s *hStore) Size(name string) (n int64, err error) {
	sym.Atomic(func() {
		if !s.objs[name] {
			err = errHNotExist
		}
	})
	return 0, err
}
func (s *hStore) IsNotExistError(err error) bool { return errors.Is(err, errHNotExist) }
func (s *hStore) Close() error                   { return nil }
func (s *hStore) ReadObject(ctx context.Context, name string) (remote.ObjectReader, int64, error) {
	return nil, 0, errHNotExist
}

func hProvider(id objstorage.CreatorID) *provider {
	p := &provider{}
	p.st.Remote.StorageFactory = remote.MakeSimpleFactory(nil)
	p.remote.shared.creatorID = id
	p.remote.shared.initialized.Store(true)
	p.mu.protectedObjects = map[base.DiskFileNum]int{}
	return p
}

// hAttach is the reference-taking core of provider.AttachRemoteObjects for one
// object (the real sharedCreateRef / sharedObjectRefName / sharedUnref are
// called; the decoding of the backing and the catalog update around them are
// outside): create our reference marker, then check that the reference of the
// provider that handed us the object still exists.
func hAttach(p *provider, meta objstorage.ObjectMetadata, origin objstorage.CreatorID, originFileNum base.DiskFileNum) error {
	if err := p.sharedCreateRef(meta); err != nil {
		return err
	}
	refName := sharedObjectRefName(meta, origin, originFileNum)
	if _, err := meta.Remote.Storage.Size(refName); err != nil {
		_ = p.sharedUnref(meta)
		return err
	}
	return nil
}

// VerifHarness_C41_Conc_SharedRefs: provider A created a shared object and
// holds the only reference. Concurrently A drops its reference (sharedUnref)
// while provider B attaches the object it was handed by A (and optionally a
// third provider C, handed the object by B once B is attached, does the same,
// and B later drops its own reference). On every interleaving of the store
// operations: the object is never deleted while a successfully attached
// provider still holds its reference; an attach that loses the race with the
// last unref fails rather than leaving a dangling reference to a deleted
// object; and once every holder has dropped its reference the object is gone.
func VerifHarness_C41_Conc_SharedRefs() {
	store := &hStore{objs: map[string]bool{}}
	// creator ids and local file numbers: distinct small ids, or ids where one's decimal
	// representation is a suffix of the other's, with equal or different local file numbers
	// (reference-marker names are built from them)
	idA, idB := objstorage.CreatorID(1), objstorage.CreatorID(2)
	if sym.Bool("suffix-related-ids") {
		idA, idB = 2, 12
	}
	if sym.Bool("swap-ids") {
		idA, idB = idB, idA
	}
	numB := base.DiskFileNum(20)
	if sym.Bool("same-file-number") {
		numB = 10
	}
	a, b := hProvider(idA), hProvider(idB)
	metaA := objstorage.ObjectMetadata{DiskFileNum: 10, FileType: base.FileTypeTable}
	metaA.Remote.CreatorID, metaA.Remote.CreatorFileNum = idA, 10
	metaA.Remote.CleanupMethod = objstorage.SharedRefTracking
	metaA.Remote.Storage = store
	objName := remoteObjectName(metaA)
	store.objs[objName] = true
	sym.Assert(a.sharedCreateRef(metaA) == nil, "creator-reference")

	metaB := metaA
	metaB.DiskFileNum = numB // B's own file number for the object
	bUnrefs := sym.Bool("b-unrefs-later")

	var attachErr error
	done := make(chan struct{}, 2)
	go func() {
		_ = a.sharedUnref(metaA)
		done <- struct{}{}
	}()
	go func() {
		attachErr = hAttach(b, metaB, idA, 10)
		if attachErr == nil && bUnrefs {
			_ = b.sharedUnref(metaB)
		}
		done <- struct{}{}
	}()
	<-done
	<-done

	objectExists := store.objs[objName]
	bRef := store.objs[sharedObjectRefName(metaB, idB, numB)]
	if attachErr == nil && !bUnrefs {
		sym.Assert(objectExists, "object-kept-while-an-attached-provider-holds-a-reference")
		sym.Assert(bRef, "attached-provider-has-its-reference")
	} else {
		// nobody holds the object any more
		sym.Assert(!bRef, "failed-or-released-attach-leaves-no-reference")
		sym.Assert(!objectExists, "object-deleted-once-unreferenced")
	}
	sym.Assert(!store.objs[sharedObjectRefName(metaA, idA, 10)], "creator-reference-gone")
	sym.Reach("shared-refs")
}
