package compact

import (
	"bytes"

	"github.com/cockroachdb/pebble/internal/base"
	"github.com/cockroachdb/pebble/internal/keyspan"
	sym "github.com/cockroachdb/pebble/internal/verifsym"
)

// hEntry is one version of a user key. val is the 1-byte value of a
// SET/SETWITHDEL/MERGE; for DELSIZED, sized says whether it carries a size and
// val&0x7f is that size. Entries produced by the iterator carry their (possibly
// merged, multi-byte) value in packed/n instead.
type hEntry struct {
	key    byte
	seq    base.SeqNum
	kind   base.InternalKeyKind
	val    byte
	sized  bool
	packed uint64 // value bytes, oldest operand in the low byte
	n      uint64 // number of value bytes
}

const (
	hSet    = base.InternalKeyKindSet
	hDel    = base.InternalKeyKindDelete
	hMerge  = base.InternalKeyKindMerge
	hSDel   = base.InternalKeyKindSingleDelete
	hDSized = base.InternalKeyKindDeleteSized
	hSetDel = base.InternalKeyKindSetWithDelete
)

func hKindOK(k base.InternalKeyKind) bool {
	return sym.Or(sym.Or(sym.Or(k == hSet, k == hDel), sym.Or(k == hMerge, k == hSDel)), sym.Or(k == hDSized, k == hSetDel))
}

func hIsTomb(k base.InternalKeyKind) bool {
	return sym.Or(sym.Or(k == hDel, k == hSDel), k == hDSized)
}

// hState is the read model's state for one key while folding its versions from
// oldest to newest: whether a value is visible and which (DefaultMerger
// concatenates operands oldest..newest).
type hState struct {
	present   bool
	packed, n uint64
}

// hFold applies version e (if visible at snapshot s) on top of st. No branch
// depends on symbolic data: kinds, sequence numbers and the snapshot may all
// be symbolic.
func hFold(st hState, e hEntry, s base.SeqNum, tombs []hTomb) hState {
	vis := e.seq < s
	for _, t := range tombs {
		// a visible range tombstone hides every older version of a key it covers
		vis = sym.And(vis, !sym.And(sym.And(t.seq < s, e.seq < t.seq), sym.And(t.start <= e.key, e.key < t.end)))
	}
	isSet := sym.Or(e.kind == hSet, e.kind == hSetDel)
	isMerge := e.kind == hMerge
	np := sym.Or(isSet, isMerge)
	mergePacked := st.packed | e.packed<<(8*st.n)
	npacked := sym.Ite(isSet, e.packed, sym.Ite(isMerge, mergePacked, uint64(0)))
	nn := sym.Ite(isSet, e.n, sym.Ite(isMerge, st.n+e.n, uint64(0)))
	return hState{sym.Ite(vis, np, st.present), sym.Ite(vis, npacked, st.packed), sym.Ite(vis, nn, st.n)}
}

// hViewOf folds the versions of key (given newest first) visible at s.
func hViewOf(es []hEntry, key byte, s base.SeqNum, st hState, tombs []hTomb) hState {
	for i := len(es) - 1; i >= 0; i-- {
		if es[i].key == key {
			st = hFold(st, es[i], s, tombs)
		}
	}
	return st
}

// hTomb is a range tombstone [start, end) at seq.
type hTomb struct {
	start, end byte
	seq        base.SeqNum
}

func hTombIter(ts []hTomb) keyspan.FragmentIterator {
	if len(ts) == 0 {
		return nil
	}
	var spans []keyspan.Span
	for _, t := range ts { // non-overlapping, ascending (one tombstone, or the fragments the first compaction emitted)
		spans = append(spans, keyspan.Span{Start: []byte{t.start}, End: []byte{t.end},
			Keys: []keyspan.Key{{Trailer: base.MakeTrailer(t.seq, base.InternalKeyKindRangeDelete)}}})
	}
	return keyspan.NewIter(base.DefaultComparer.Compare, spans)
}

func hKVs(es []hEntry) []base.InternalKV {
	var in []base.InternalKV
	for _, e := range es {
		var val []byte
		switch e.kind {
		case hSet, hMerge, hSetDel:
			val = make([]byte, e.n)
			for i := range val {
				val[i] = byte(e.packed >> (8 * uint(i)))
			}
		case hDSized:
			if e.sized {
				val = []byte{e.val & 0x7f}
			}
		}
		in = append(in, base.InternalKV{K: base.MakeInternalKey([]byte{e.key}, e.seq, e.kind), V: base.MakeInPlaceValue(val)})
	}
	return in
}

// hHistory draws a full history for the keys 'a' (up to na versions, any kind)
// and 'b' (up to nb): symbolic kinds, values and strictly decreasing sequence
// numbers per key, under the SingleDelete contract. Kinds stay symbolic (no
// case split here): only the versions the iterator examines get split.
func hHistory(na, nb int) []hEntry {
	var F []hEntry
	for k := byte('a'); k <= 'b'; k++ {
		max := na
		if k == 'b' {
			max = nb
		}
		n := sym.Choose("n", max+1)
		var prev base.SeqNum = 1 << 20
		first := len(F)
		for i := 0; i < n; i++ {
			seq := base.SeqNum(sym.U8("seq")) + 1 // 1..256
			sym.Assume(seq < prev)                // newest first within a key
			prev = seq
			kind := base.InternalKeyKind(sym.U8("kind"))
			sym.Assume(hKindOK(kind))
			v := sym.U8("val")
			F = append(F, hEntry{key: k, seq: seq, kind: kind, val: v, sized: sym.Bool("sized"), packed: uint64(v), n: 1})
		}
		// SingleDelete contract: the key was written at most once since it was last deleted. A
		// SETWITHDEL carries its own deletion of everything older, so anything may lie below it;
		// below a plain SET or MERGE that a SINGLEDEL deletes, the next older version must be a
		// tombstone.
		for i := first; i+2 < len(F); i++ {
			plainWrite := sym.Or(F[i+1].kind == hSet, F[i+1].kind == hMerge)
			sym.Assume(sym.Implies(sym.And(F[i].kind == hSDel, plainWrite), hIsTomb(F[i+2].kind)))
		}
	}
	return F
}

func hCompactOnce(it *Iter, bottommost bool, lo, hi base.SeqNum) ([]hEntry, []hTomb) {
	var out []hEntry
	var tombs []hTomb
	var prevKey base.InternalKey
	for kv := it.First(); kv != nil; kv = it.Next() {
		if kv.Kind() == base.InternalKeyKindRangeDelete {
			sp := it.Span()
			sym.Assert(len(sp.Start) == 1 && len(sp.End) == 1 && len(sp.Keys) > 0, "emitted-rangedel-well-formed")
			for _, k := range sp.Keys {
				sym.Assert(k.Kind() == base.InternalKeyKindRangeDelete, "emitted-rangedel-kind")
				tombs = append(tombs, hTomb{sp.Start[0], sp.End[0], k.SeqNum()})
			}
			continue
		}
		v, _, err := kv.Value(nil)
		sym.Assert(err == nil, "value")
		if len(out) > 0 {
			sym.Assert(base.InternalCompare(bytes.Compare, prevKey, kv.K) < 0, "output-strictly-ordered")
		}
		prevKey = kv.K.Clone()
		seq := kv.SeqNum()
		// an output version carries the sequence number of an input version, or zero at the bottom
		sym.Assert(sym.Or(sym.And(seq > lo, seq <= hi), sym.And(seq == 0, bottommost)), "output-seqnum-from-input-or-zeroed-at-bottom")
		e := hEntry{key: kv.K.UserKey[0], seq: seq, kind: kv.Kind(), n: uint64(len(v))}
		for i, b := range v {
			e.packed |= uint64(b) << (8 * uint(i))
		}
		out = append(out, e)
	}
	sym.Assert(it.Error() == nil, "no-error")
	return out, tombs
}

// hPointStripes: compaction of the upper part (seq > cut) of a key history
// leaves every snapshot's view of (output ∪ remainder) equal to the view of
// the full history; optionally a second compaction takes the first output
// together with the versions above cut2.
func hPointStripes(na, nb, maxSnaps int, twoStep bool) { hStripes(na, nb, maxSnaps, twoStep, false) }

func hStripes(na, nb, maxSnaps int, twoStep, withRangeDel bool) {
	F := hHistory(na, nb)
	cut := base.SeqNum(sym.U16("cut")) // versions with seq > cut are compacted
	sym.Assume(cut <= 257)
	cut2 := base.SeqNum(1 << 30) // versions above cut2 join only the second compaction
	if twoStep {
		cut2 = base.SeqNum(sym.U16("cut2"))
		sym.Assume(sym.And(cut2 >= cut, cut2 <= 257))
	}
	var snaps Snapshots
	for i, n := 0, sym.Choose("nsnap", maxSnaps+1); i < n; i++ {
		s := base.SeqNum(sym.U16("snap")) + 1
		sym.Assume(s <= 300)
		if len(snaps) > 0 {
			sym.Assume(s > snaps[len(snaps)-1])
		}
		snaps = append(snaps, s)
	}
	// optionally one range tombstone over key a, or over both keys, at its own sequence number
	var rd []hTomb
	if withRangeDel && sym.Bool("rangedel") {
		t := hTomb{start: 'a', end: 'b', seq: base.SeqNum(sym.U8("rangedel-seq")) + 1}
		if nb > 0 {
			t.end += byte(sym.Choose("rangedel-covers-b", 2))
		}
		for _, e := range F {
			sym.Assume(e.seq != t.seq)
		}
		rd = append(rd, t)
	}
	var in, R, newer []hEntry
	var inT, RT, newerT []hTomb
	remBelow := map[byte]bool{}
	inputHas := map[byte]bool{}
	for _, t := range rd {
		if t.seq > cut2 {
			newerT = append(newerT, t)
		} else if t.seq > cut {
			inT = append(inT, t)
		} else {
			RT = append(RT, t)
		}
	}
	for _, e := range F {
		if e.seq > cut2 {
			newer = append(newer, e)
			inputHas[e.key] = true
		} else if e.seq > cut {
			in = append(in, e)
			inputHas[e.key] = true
		} else {
			R = append(R, e)
			remBelow[e.key] = true
		}
	}
	bottommost := false
	if len(R) == 0 && len(RT) == 0 {
		bottommost = sym.Bool("bottommost")
	}
	elision := NoTombstoneElision()
	if bottommost {
		// tableCompaction.isBottommostDataLayer sets the flag only when the tombstone elision
		// elides everything (no in-use ranges below)
		elision = ElideTombstonesOutsideOf(nil)
	} else if sym.Bool("elide") {
		var inUse []base.UserKeyBounds
		for k := byte('a'); k <= 'b'; k++ {
			// in-use ranges cover every key with versions below the cut (what SetupTombstoneElision guarantees)
			use := remBelow[k]
			if !use && inputHas[k] {
				use = sym.Bool("inUse")
			}
			if use {
				inUse = append(inUse, base.UserKeyBoundsInclusive([]byte{k}, []byte{k}))
			}
		}
		elision = ElideTombstonesOutsideOf(inUse)
	}
	cfg := IterConfig{
		Comparer: base.DefaultComparer, Merge: base.DefaultMerger.Merge, Snapshots: snaps,
		TombstoneElision: elision, RangeKeyElision: NoTombstoneElision(), IsBottommostDataLayer: bottommost,
	}
	hi := base.SeqNum(257)
	if twoStep {
		hi = cut2
	}
	out, outT := hCompactOnce(NewIter(cfg, base.NewFakeIter(base.DefaultComparer, hKVs(in)), hTombIter(inT), nil), bottommost, cut, hi)
	if twoStep {
		// second compaction: the newer versions and the first output (all of which lie at or
		// below cut2, or are zeroed), same remainder
		var all []hEntry
		for k := byte('a'); k <= 'b'; k++ {
			for _, e := range newer {
				if e.key == k {
					all = append(all, e)
				}
			}
			for _, e := range out {
				if e.key == k {
					all = append(all, e)
				}
			}
		}
		out, outT = hCompactOnce(NewIter(cfg, base.NewFakeIter(base.DefaultComparer, hKVs(all)), hTombIter(append(newerT, outT...)), nil), bottommost, cut, 257)
	}
	views := append(append(Snapshots(nil), snaps...), base.SeqNumMax)
	for _, s := range views {
		for k := byte('a'); k <= 'b'; k++ {
			want := hViewOf(F, k, s, hState{}, rd)
			// output versions are all newer than the remainder (or zeroed, and then nothing remains)
			gotT := append(append([]hTomb(nil), outT...), RT...)
			got := hViewOf(out, k, s, hViewOf(R, k, s, hState{}, gotT), gotT)
			sym.Assert(want.present == got.present, "view-preserved-presence")
			sym.Assert(sym.Implies(want.present, sym.And(want.packed == got.packed, want.n == got.n)), "view-preserved-value")
		}
	}
	sym.Reach("compacted")
}

// One key, up to 3 versions, one snapshot.
func VerifHarness_C17_PointStripes() { hPointStripes(3, 0, 1, false) }

// Two keys (the iterator's key-change handling), up to 2 + 1 versions.
func VerifHarness_C17_TwoKeys() { hPointStripes(2, 1, 1, false) }

// Two consecutive compactions, up to 4 versions, no snapshot. (4 versions and two steps are
// what it takes to expose a SET that should have become SETWITHDEL: SINGLEDEL SET DEL | SET.)
func VerifHarness_C17_TwoStep() { hPointStripes(4, 0, 0, true) }

// One key (plus an optional single version of b), a range tombstone anywhere in the history.
func VerifHarness_C17_RangeDel() { hStripes(2, 0, 1, false, true) }

func VerifHarness_C17_RangeDel_Deep()         { hStripes(2, 1, 2, false, true) }
func VerifHarness_C17_RangeDel3_Thorough()    { hStripes(3, 0, 1, false, true) }
func VerifHarness_C17_RangeDelTwoStep_Deep()  { hStripes(3, 0, 1, true, true) }
func VerifHarness_C17_PointStripes_Thorough() { hPointStripes(4, 0, 2, false) }
func VerifHarness_C17_TwoKeys_Thorough()      { hPointStripes(3, 2, 1, false) }
func VerifHarness_C17_TwoStepSnap_Deep()      { hPointStripes(3, 1, 1, true) }
