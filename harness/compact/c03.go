package compact

// VerifHarness_C03_CompactionStripes: the compaction iterator keeps every open
// snapshot's view (two snapshots placed anywhere in the history).
func VerifHarness_C03_CompactionStripes() { hPointStripes(3, 0, 2, false) }
