package compact

// VerifHarness_C14_CompactionKeepsReads: what default compactions and flushes
// write leaves the latest state and every snapshot's view unchanged (the C17
// lemma: one key, <= 3 versions, one snapshot, every elision setting).
func VerifHarness_C14_CompactionKeepsReads() { hPointStripes(3, 0, 1, false) }
