package atomicfs

import (
	"sort"

	"github.com/cockroachdb/errors/oserror"
	sym "github.com/cockroachdb/pebble/internal/verifsym"
	"github.com/cockroachdb/pebble/vfs"
)

// crashDir is a one-directory filesystem with an explicit crash model. Every
// mutating call is an "fs op"; after crashAt ops the process is dead and later
// ops have no effect. cur is the directory as the process sees it; synced is
// what the last directory sync made durable; log is the list of directory
// operations since that sync, in order.
type crashDir struct {
	vfs.FS
	cur, synced map[string]bool
	log         []dirOp
	ops         int
	crashAt     int
}
type dirOp struct {
	name   string
	create bool
}

func (d *crashDir) dead() bool                     { d.ops++; return d.ops > d.crashAt }
func (d *crashDir) PathJoin(elem ...string) string { return elem[len(elem)-1] }
func (d *crashDir) List(string) ([]string, error) {
	var ls []string
	for n := range d.cur {
		ls = append(ls, n)
	}
	sort.Strings(ls)
	return ls, nil
}
func (d *crashDir) Create(name string, _ vfs.DiskWriteCategory) (vfs.File, error) {
	if !d.dead() {
		d.cur[name] = true
		d.log = append(d.log, dirOp{name, true})
	}
	return &crashFile{d: d}, nil
}
func (d *crashDir) Remove(name string) error {
	if !d.cur[name] {
		return oserror.ErrNotExist
	}
	if !d.dead() {
		delete(d.cur, name)
		d.log = append(d.log, dirOp{name, false})
	}
	return nil
}
func (d *crashDir) OpenDir(string) (vfs.File, error) { return &crashFile{d: d, dir: true}, nil }

type crashFile struct {
	vfs.File
	d   *crashDir
	dir bool
}

func (f *crashFile) Close() error { return nil }
func (f *crashFile) Sync() error {
	if f.dir && !f.d.dead() {
		f.d.synced = map[string]bool{}
		for n := range f.d.cur {
			f.d.synced[n] = true
		}
		f.d.log = nil
	}
	return nil
}

// afterCrash returns one directory state the crash model allows.
func (d *crashDir) afterCrash() *crashDir {
	out := map[string]bool{}
	for n := range d.synced {
		out[n] = true
	}
	if sym.Bool("orderedModel") {
		// any prefix of the unsynced directory operations persisted, in order
		k := sym.Choose("prefix", len(d.log)+1)
		for _, op := range d.log[:k] {
			if op.create {
				out[op.name] = true
			} else {
				delete(out, op.name)
			}
		}
	} else {
		// Pebble's MemFS model: synced entries plus any subset of current ones
		for n := range d.cur {
			if sym.Bool("survive:" + n) {
				out[n] = true
			}
		}
	}
	return &crashDir{cur: out, synced: out, crashAt: 1 << 30}
}

func VerifHarness_C24_MoveCrash() {
	d := &crashDir{cur: map[string]bool{}, synced: map[string]bool{}, crashAt: 1 << 30}
	// initial state: marker at "v1" (durable), optionally an obsolete older file
	m, _, err := LocateMarker(d, "", "m")
	sym.Assert(err == nil, "locate-empty")
	sym.Assert(m.Move("v1") == nil, "initial-move")
	if sym.Bool("withObsolete") {
		d.cur["marker.m.000000.v0"] = true
		d.synced["marker.m.000000.v0"] = true
	}
	m, old, err := LocateMarker(d, "", "m")
	sym.Assert(err == nil && old == "v1", "locate-v1")

	d.ops = 0
	d.crashAt = sym.Choose("crashAt", 6) // 0..5 fs ops survive; Move performs 3
	moveErr := m.Move("v2")
	returned := d.ops <= d.crashAt // the process was still alive when Move returned
	if sym.Bool("removeObsolete") && returned {
		_ = m.RemoveObsolete()
	}

	post := d.afterCrash()
	got, err := ReadMarker(post, "", "m")
	sym.Assert(err == nil, "readable-after-crash")
	sym.Assert(got == "v1" || got == "v2", "old-or-new")
	if returned && moveErr == nil {
		sym.Assert(got == "v2", "durable-once-returned")
	}
	sym.Reach("move")
}

// VerifHarness_C24_TwoMoves_Thorough: two consecutive moves with a crash at any
// filesystem operation of either.
func VerifHarness_C24_TwoMoves_Thorough() {
	d := &crashDir{cur: map[string]bool{}, synced: map[string]bool{}, crashAt: 1 << 30}
	m, _, err := LocateMarker(d, "", "m")
	sym.Assert(err == nil, "locate-empty")
	sym.Assert(m.Move("v1") == nil, "initial-move")
	d.ops = 0
	d.crashAt = sym.Choose("crashAt", 9)
	err2 := m.Move("v2")
	ret2 := d.ops <= d.crashAt
	if sym.Bool("removeObsolete") && ret2 {
		_ = m.RemoveObsolete()
	}
	err3 := m.Move("v3")
	ret3 := d.ops <= d.crashAt
	post := d.afterCrash()
	got, err := ReadMarker(post, "", "m")
	sym.Assert(err == nil, "readable-after-crash")
	sym.Assert(got == "v1" || got == "v2" || got == "v3", "one-of-the-values")
	if ret2 && err2 == nil {
		sym.Assert(got != "v1", "second-value-durable-once-returned")
	}
	if ret3 && err3 == nil {
		sym.Assert(got == "v3", "third-value-durable-once-returned")
	}
	// a fresh process locating the marker agrees with ReadMarker and can move it on
	m2, v, err := LocateMarker(post, "", "m")
	sym.Assert(err == nil && v == got, "locate-agrees-with-read")
	sym.Assert(m2.Move("v4") == nil, "move-after-recovery")
	got, err = ReadMarker(post, "", "m")
	sym.Assert(err == nil && got == "v4", "moved-after-recovery")
	sym.Reach("two-moves")
}

// VerifHarness_C24_HighestIterationWins: for an arbitrary listing of marker
// files of one marker with symbolic iteration numbers (1-, 6- or 7-digit fields; leading digit and low 2/3 digits symbolic) and
// values, the scan selects the file with the numerically highest iteration and
// reports every other file as obsolete - an obsolete file never wins.
func VerifHarness_C24_HighestIterationWins() {
	n := 2
	if sym.Thorough() {
		n = 2 + sym.Choose("files", 2)
	}
	names := make([]string, n)
	iters := make([]uint64, n)
	vals := make([]byte, n)
	for i := 0; i < n; i++ {
		// the leading digit and the K low digits are symbolic, the ones in between are zeros; the
		// field is 6 digits wide (%06d), 7 (once the iteration passes 999999) or 1 (unpadded
		// names parse too)
		K := 2
		if sym.Thorough() {
			K = 3
		}
		w := []int{6, 7, 1}[sym.Choose("width", 3)]
		digits := make([]byte, w)
		for j := range digits {
			digits[j] = '0'
		}
		digits[0] = sym.U8("lead-digit")
		if w > 1 {
			copy(digits[w-K:], sym.BytesN("digits", K))
		}
		var v uint64
		for _, c := range digits {
			sym.Assume(sym.And(c >= '0', c <= '9'))
			v = v*10 + uint64(c-'0')
		}
		iters[i] = v
		vals[i] = sym.U8("value")
		sym.Assume(sym.And(vals[i] >= 'a', vals[i] <= 'z'))
		names[i] = "marker.m." + string(digits) + "." + string([]byte{vals[i]})
	}
	best := 0
	for i := 1; i < n; i++ {
		sym.Assume(sym.And(iters[i] != iters[0], sym.Or(i < 2, iters[i] != iters[1])))
		if iters[i] > iters[best] {
			best = i
		}
	}
	state, err := scanForMarker(nil, names, "m")
	sym.Assert(err == nil, "well-formed-names-parse")
	sym.Assert(state.iter == iters[best], "highest-iteration-wins")
	sym.Assert(state.filename == names[best], "winner-filename")
	sym.Assert(len(state.value) == 1 && state.value[0] == vals[best], "winner-value")
	sym.Assert(len(state.obsolete) == n-1, "all-others-obsolete")
	for _, o := range state.obsolete {
		sym.Assert(o != names[best], "winner-not-obsolete")
	}
	sym.Reach("scan")
}
