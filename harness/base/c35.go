package base

import sym "github.com/cockroachdb/pebble/internal/verifsym"

func hCmp(c *Comparer) *sym.Comparer {
	return &sym.Comparer{
		Compare: c.Compare, Equal: c.Equal, Split: c.Split,
		ComparePointSuffixes: c.ComparePointSuffixes, CompareRangeSuffixes: c.CompareRangeSuffixes,
		Separator: c.Separator, Successor: c.Successor, ImmediateSuccessor: c.ImmediateSuccessor,
		AbbreviatedKey: c.AbbreviatedKey,
	}
}

func hKeyLen() int {
	if sym.Thorough() {
		return 9
	}
	return 4
}

// VerifHarness_C35_DefaultPair: order axioms, Equal, Split, AbbreviatedKey.
func VerifHarness_C35_DefaultPair() {
	n := hKeyLen()
	a, b := sym.Bytes("a", n), sym.Bytes("b", n)
	sym.CheckPair(hCmp(DefaultComparer), a, b)
}

// VerifHarness_C35_DefaultSeparator: Separator and Successor (non-empty keys, as documented).
func VerifHarness_C35_DefaultSeparator() {
	n := hKeyLen()
	a, b := sym.Bytes("a", n), sym.Bytes("b", n)
	sym.Assume(len(a) > 0 && len(b) > 0)
	sym.CheckSeparator(hCmp(DefaultComparer), a, b)
}

func VerifHarness_C35_DefaultTransitive() {
	n := 3
	if sym.Thorough() {
		n = 5
	}
	sym.CheckTransitive(hCmp(DefaultComparer), sym.Bytes("x", n), sym.Bytes("y", n), sym.Bytes("z", n))
}

func VerifHarness_C35_DefaultImmediateSuccessor() {
	n := hKeyLen()
	sym.CheckImmediateSuccessor(hCmp(DefaultComparer), sym.Bytes("p", n), sym.Bytes("k", n+1))
}
