package keyspan

import (
	"github.com/cockroachdb/pebble/internal/base"
	sym "github.com/cockroachdb/pebble/internal/verifsym"
)

// hInputSpans draws n spans sorted by start key: 1-byte bounds, 1..maxKeys keys
// each with symbolic trailers in descending order.
func hInputSpans(n, maxKeys int) []Span {
	var spans []Span
	var prevStart byte
	for i := 0; i < n; i++ {
		s, e := sym.U8("start"), sym.U8("end")
		sym.Assume(s >= prevStart) // Add requires spans ordered by start key
		prevStart = s
		nk := 1 + sym.Choose("nkeys", maxKeys)
		keys := make([]Key, nk)
		for j := range keys {
			keys[j].Trailer = base.InternalKeyTrailer(sym.U16("trailer"))
			if j > 0 {
				sym.Assume(keys[j].Trailer <= keys[j-1].Trailer) // keys sorted by trailer descending
			}
		}
		spans = append(spans, Span{Start: []byte{s}, End: []byte{e}, Keys: keys})
	}
	// pairwise distinct trailers (a key is identified by its trailer in the oracle)
	var seen []base.InternalKeyTrailer
	for i := range spans {
		for _, k := range spans[i].Keys {
			for _, t := range seen {
				sym.Assume(k.Trailer != t)
			}
			seen = append(seen, k.Trailer)
		}
	}
	return spans
}

// hCoverage asserts that, at an arbitrary probe key, the keys of the fragments
// covering it are exactly the keys of the input spans covering it. The probe is
// one symbolic byte, so the assertion is decided for every key. Input trailers
// are pairwise distinct (hInputSpans), so "every covering input key occurs in a
// covering fragment" plus "same number of keys" is set equality.
func hCoverage(in, out []Span, probe byte, tag string) {
	covers := func(s *Span) bool { return sym.And(s.Start[0] <= probe, probe < s.End[0]) }
	var nIn, nOut uint64
	for i := range in {
		nIn += sym.Ite(covers(&in[i]), uint64(len(in[i].Keys)), uint64(0))
	}
	for i := range out {
		nOut += sym.Ite(covers(&out[i]), uint64(len(out[i].Keys)), uint64(0))
	}
	sym.Assert(nIn == nOut, tag+"-same-number-of-keys")
	for i := range in {
		for _, k := range in[i].Keys {
			found := false
			for i2 := range out {
				for _, k2 := range out[i2].Keys {
					found = sym.Or(found, sym.And(covers(&out[i2]), k2.Trailer == k.Trailer))
				}
			}
			sym.Assert(sym.Implies(covers(&in[i]), found), tag+"-covering-key-present")
		}
	}
}

func hWellFormed(out []Span, tag string) {
	for i := range out {
		sym.Assert(len(out[i].Start) == 1 && len(out[i].End) == 1, tag+"-bounds-present")
		sym.Assert(out[i].Start[0] < out[i].End[0], tag+"-non-empty")
		sym.Assert(len(out[i].Keys) > 0, tag+"-has-keys")
		if i > 0 {
			sym.Assert(out[i-1].End[0] <= out[i].Start[0], tag+"-sorted-non-overlapping")
		}
		for j := 1; j < len(out[i].Keys); j++ {
			sym.Assert(out[i].Keys[j-1].Trailer >= out[i].Keys[j].Trailer, tag+"-keys-by-trailer-descending")
		}
	}
}

func hFragment(in []Span) []Span {
	var out []Span
	f := &Fragmenter{Cmp: base.DefaultComparer.Compare, Format: base.DefaultComparer.FormatKey, Emit: func(s Span) {
		out = append(out, s.Clone())
	}}
	for _, s := range in {
		f.Add(s)
	}
	f.Finish()
	return out
}

func hFragmenter(n, maxKeys int) {
	in := hInputSpans(n, maxKeys)
	out := hFragment(in)
	hWellFormed(out, "fragments")
	hCoverage(in, out, sym.U8("probe"), "fragments")
	sym.Reach("fragmented")
}

// VerifHarness_C32_Fragmenter: up to 3 overlapping spans with one key each.
func VerifHarness_C32_Fragmenter() {
	hFragmenter(1+sym.Choose("spans", 3), 1)
}

// VerifHarness_C32_FragmenterKeys: 2 spans with up to 2 keys each (key order within fragments).
func VerifHarness_C32_FragmenterKeys() {
	hFragmenter(2, 2)
}

func VerifHarness_C32_Fragmenter_Thorough() {
	hFragmenter(4, 1)
}

func VerifHarness_C32_FragmenterKeys_Thorough() {
	hFragmenter(3, 2)
}

func hCollect(it FragmentIterator, forward bool) []Span {
	var out []Span
	var s *Span
	var err error
	if forward {
		s, err = it.First()
	} else {
		s, err = it.Last()
	}
	for s != nil {
		sym.Assert(err == nil, "iter-error")
		out = append(out, s.Clone())
		if forward {
			s, err = it.Next()
		} else {
			s, err = it.Prev()
		}
	}
	sym.Assert(err == nil, "iter-error")
	if !forward {
		for i, j := 0, len(out)-1; i < j; i, j = i+1, j-1 {
			out[i], out[j] = out[j], out[i]
		}
	}
	return out
}

func hSameSpans(a, b []Span, tag string) {
	sym.Assert(len(a) == len(b), tag+"-same-count")
	if len(a) != len(b) {
		return
	}
	for i := range a {
		sym.Assert(sym.And(a[i].Start[0] == b[i].Start[0], a[i].End[0] == b[i].End[0]), tag+"-same-bounds")
		sym.Assert(len(a[i].Keys) == len(b[i].Keys), tag+"-same-keys")
	}
}

// VerifHarness_C32_Truncate: truncating fragmented spans to [lo, hi) keeps, for
// every key inside the bounds, exactly the keys that covered it, and covers
// nothing outside; forward and backward iteration agree.
func VerifHarness_C32_Truncate() {
	in := hInputSpans(2, 1)
	frags := hFragment(in)
	lo, hi := sym.U8("lo"), sym.U8("hi")
	sym.Assume(lo < hi)
	cmp := base.DefaultComparer.Compare
	bounds := base.UserKeyBoundsEndExclusive([]byte{lo}, []byte{hi})
	out := hCollect(Truncate(cmp, NewIter(cmp, frags), bounds), true)
	hWellFormed(out, "truncated")
	probe := sym.U8("probe")
	inside := sym.And(lo <= probe, probe < hi)
	// inside the bounds: same coverage as the input, decided at the symbolic probe
	var clipped []Span
	for _, s := range in {
		c := s.Clone()
		// clip the input span to the bounds (as values, no branching on symbolic keys)
		c.Start = []byte{sym.Ite(c.Start[0] < lo, lo, c.Start[0])}
		c.End = []byte{sym.Ite(c.End[0] > hi, hi, c.End[0])}
		clipped = append(clipped, c)
	}
	hCoverage(clipped, out, probe, "truncated")
	for i := range out {
		sym.Assert(sym.Implies(!inside, !sym.And(out[i].Start[0] <= probe, probe < out[i].End[0])), "truncated-nothing-outside-bounds")
	}
	back := hCollect(Truncate(cmp, NewIter(cmp, frags), bounds), false)
	hSameSpans(out, back, "truncated-backward")
	sym.Reach("truncated")
}

// VerifHarness_C32_Defragment: fragments that were split further at arbitrary
// points (physical fragmentation) are joined back by DefragmentingIter with
// DefragmentInternal: per-key coverage is unchanged, no two emitted spans abut
// with identical keys, forward and backward iteration agree.
func VerifHarness_C32_Defragment() {
	in := hInputSpans(2, 1)
	frags := hFragment(in)
	var split []Span
	for _, f := range frags {
		if sym.Bool("split") {
			m := sym.U8("at")
			sym.Assume(sym.And(f.Start[0] < m, m < f.End[0]))
			split = append(split, Span{Start: f.Start, End: []byte{m}, Keys: f.Keys}, Span{Start: []byte{m}, End: f.End, Keys: f.Keys})
		} else {
			split = append(split, f)
		}
	}
	mk := func() FragmentIterator {
		var it DefragmentingIter
		it.Init(base.DefaultComparer, NewIter(base.DefaultComparer.Compare, split), DefragmentInternal, StaticDefragmentReducer, new(DefragmentingBuffers))
		return &it
	}
	out := hCollect(mk(), true)
	hWellFormed(out, "defragmented")
	hCoverage(in, out, sym.U8("probe"), "defragmented")
	for i := 1; i < len(out); i++ {
		abut := out[i-1].End[0] == out[i].Start[0]
		same := len(out[i-1].Keys) == len(out[i].Keys)
		if same {
			eq := true
			for j := range out[i].Keys {
				eq = sym.And(eq, out[i-1].Keys[j].Trailer == out[i].Keys[j].Trailer)
			}
			sym.Assert(!sym.And(abut, eq), "defragmented-maximal")
		}
	}
	back := hCollect(mk(), false)
	hSameSpans(out, back, "defragmented-backward")
	sym.Reach("defragmented")
}

// hSeekOps: SeekGE / SeekLT with a symbolic key, followed by a Next or Prev,
// land on the span the (already validated) forward list prescribes: SeekGE(k)
// on the first span whose end is beyond k, SeekLT(k) on the last span that
// starts before k.
func hSeekOps(it FragmentIterator, list []Span, tag string) {
	k := sym.U8(tag + "-seek")
	var idx int64
	var sp *Span
	var err error
	if sym.Bool(tag + "-seek-ge") {
		sp, err = it.SeekGE([]byte{k})
		for i := range list {
			idx += sym.Ite(list[i].End[0] <= k, int64(1), int64(0))
		}
	} else {
		sp, err = it.SeekLT([]byte{k})
		idx = -1
		for i := range list {
			idx += sym.Ite(list[i].Start[0] < k, int64(1), int64(0))
		}
	}
	check := func() {
		sym.Assert(err == nil, tag+"-seek-error")
		sym.Assert((sp != nil) == sym.And(idx >= 0, idx < int64(len(list))), tag+"-seek-validity")
		if sp != nil {
			for i := range list {
				sym.Assert(sym.Implies(idx == int64(i), sym.And(sp.Start[0] == list[i].Start[0], sym.And(sp.End[0] == list[i].End[0], len(sp.Keys) == len(list[i].Keys)))), tag+"-seek-position")
			}
		}
	}
	check()
	if sp == nil {
		return
	}
	if sym.Bool(tag + "-then-next") {
		sp, err = it.Next()
		idx++
	} else {
		sp, err = it.Prev()
		idx--
	}
	check()
}

// VerifHarness_C32_TruncateSeek / DefragmentSeek: seeks on the truncating and
// defragmenting iterators agree with their own forward scans (which the
// Truncate / Defragment harnesses compare with the input coverage).
func VerifHarness_C32_TruncateSeek() {
	in := hInputSpans(2, 1)
	frags := hFragment(in)
	lo, hi := sym.U8("lo"), sym.U8("hi")
	sym.Assume(lo < hi)
	cmp := base.DefaultComparer.Compare
	bounds := base.UserKeyBoundsEndExclusive([]byte{lo}, []byte{hi})
	list := hCollect(Truncate(cmp, NewIter(cmp, frags), bounds), true)
	hSeekOps(Truncate(cmp, NewIter(cmp, frags), bounds), list, "truncated")
	sym.Reach("truncate-seek")
}

func VerifHarness_C32_DefragmentSeek() {
	in := hInputSpans(2, 1)
	frags := hFragment(in)
	var split []Span
	for _, f := range frags {
		if sym.Bool("split") {
			m := sym.U8("at")
			sym.Assume(sym.And(f.Start[0] < m, m < f.End[0]))
			split = append(split, Span{Start: f.Start, End: []byte{m}, Keys: f.Keys}, Span{Start: []byte{m}, End: f.End, Keys: f.Keys})
		} else {
			split = append(split, f)
		}
	}
	mk := func() FragmentIterator {
		var it DefragmentingIter
		it.Init(base.DefaultComparer, NewIter(base.DefaultComparer.Compare, split), DefragmentInternal, StaticDefragmentReducer, new(DefragmentingBuffers))
		return &it
	}
	list := hCollect(mk(), true)
	hSeekOps(mk(), list, "defragmented")
	sym.Reach("defragment-seek")
}
