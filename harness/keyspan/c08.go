package keyspan

import (
	"context"

	"github.com/cockroachdb/pebble/internal/base"
	"github.com/cockroachdb/pebble/internal/treesteps"
	sym "github.com/cockroachdb/pebble/internal/verifsym"
)

// hPoints is a minimal contract-conformant point iterator over sorted keys.
type hPoints struct {
	kvs          []base.InternalKV
	i            int
	lower, upper []byte
}

func (s *hPoints) at() *base.InternalKV {
	if s.i < 0 || s.i >= len(s.kvs) {
		return nil
	}
	k := s.kvs[s.i].K.UserKey
	if s.upper != nil && k[0] >= s.upper[0] {
		return nil
	}
	if s.lower != nil && k[0] < s.lower[0] {
		return nil
	}
	return &s.kvs[s.i]
}
func (s *hPoints) SeekGE(key []byte, flags base.SeekGEFlags) *base.InternalKV {
	s.i = 0
	for s.i < len(s.kvs) && s.kvs[s.i].K.UserKey[0] < key[0] {
		s.i++
	}
	return s.at()
}
func (s *hPoints) SeekPrefixGE(prefix, key []byte, flags base.SeekGEFlags) *base.InternalKV {
	return s.SeekGE(key, flags)
}
func (s *hPoints) SeekLT(key []byte, flags base.SeekLTFlags) *base.InternalKV {
	s.i = len(s.kvs) - 1
	for s.i >= 0 && s.kvs[s.i].K.UserKey[0] >= key[0] {
		s.i--
	}
	return s.at()
}
func (s *hPoints) First() *base.InternalKV {
	if s.lower != nil {
		return s.SeekGE(s.lower, base.SeekGEFlagsNone)
	}
	s.i = 0
	return s.at()
}
func (s *hPoints) Last() *base.InternalKV {
	if s.upper != nil {
		return s.SeekLT(s.upper, base.SeekLTFlagsNone)
	}
	s.i = len(s.kvs) - 1
	return s.at()
}
func (s *hPoints) Next() *base.InternalKV {
	if s.i < len(s.kvs) {
		s.i++
	}
	return s.at()
}
func (s *hPoints) NextPrefix(succKey []byte) *base.InternalKV {
	return s.SeekGE(succKey, base.SeekGEFlagsNone)
}
func (s *hPoints) Prev() *base.InternalKV {
	if s.i >= 0 {
		s.i--
	}
	return s.at()
}
func (s *hPoints) Error() error                      { return nil }
func (s *hPoints) Close() error                      { return nil }
func (s *hPoints) SetBounds(lower, upper []byte)     { s.lower, s.upper = lower, upper }
func (s *hPoints) SetContext(context.Context)        {}
func (s *hPoints) String() string                    { return "hpoints" }
func (s *hPoints) TreeStepsNode() treesteps.NodeInfo { return treesteps.NodeInfof(s, "hpoints") }

type hEvent struct {
	marker bool // a synthetic span-start marker
	key    byte
	span   int // index of the span covering the position, -1 if none
}

// VerifHarness_C08_Interleaving: combined iteration. Point keys and
// non-overlapping spans with symbolic positions are interleaved by the real
// InterleavingIter: a forward pass stops exactly at every point key inside
// the bounds and at the (bound-clipped) start of every span that intersects
// them, markers before points at the same key; at every stop Span() is the
// span covering the position, clipped to the bounds; the backward pass stops
// at the same positions in reverse.
func VerifHarness_C08_Interleaving() {
	// up to 2 spans and 2 points over a small alphabet
	var spans []Span
	prevEnd := byte('a')
	for i, n := 0, sym.Choose("spans", 3); i < n; i++ {
		s, e := sym.U8("span-start"), sym.U8("span-end")
		sym.Assume(sym.And(sym.And(s >= prevEnd, s < e), e <= 'g'))
		prevEnd = e
		spans = append(spans, Span{Start: []byte{s}, End: []byte{e}, Keys: []Key{{Trailer: base.MakeTrailer(base.SeqNum(i+1), base.InternalKeyKindRangeKeySet), Suffix: nil, Value: []byte{byte(i)}}}})
	}
	var pts []base.InternalKV
	prevKey := byte('a' - 1)
	for i, n := 0, sym.Choose("points", 3); i < n; i++ {
		k := sym.U8("point")
		sym.Assume(sym.And(k > prevKey, k <= 'g'))
		prevKey = k
		pts = append(pts, base.InternalKV{K: base.MakeInternalKey([]byte{k}, base.SeqNum(10+i), base.InternalKeyKindSet)})
	}
	lo, hi := byte(0), byte(255)
	var opts InterleavingIterOpts
	if sym.Bool("bounded") {
		lo, hi = sym.U8("lower"), sym.U8("upper")
		sym.Assume(sym.And(sym.And(lo >= 'a', lo < hi), hi <= 'h'))
		opts.LowerBound, opts.UpperBound = []byte{lo}, []byte{hi}
	}
	cmp := base.DefaultComparer.Compare
	pi := &hPoints{kvs: pts, i: -1, lower: opts.LowerBound, upper: opts.UpperBound}
	var it InterleavingIter
	it.Init(base.DefaultComparer, pi, NewIter(cmp, spans), opts)

	// the model: events in forward order
	var want []hEvent
	covering := func(k byte) int {
		for i := range spans {
			if spans[i].Start[0] <= k && k < spans[i].End[0] {
				return i
			}
		}
		return -1
	}
	si, pj := 0, 0
	for si < len(spans) || pj < len(pts) {
		// next span marker position (clipped), if the span intersects the bounds
		spanPos, spanOK := byte(0), false
		for si < len(spans) {
			s, e := spans[si].Start[0], spans[si].End[0]
			if e <= lo || s >= hi {
				si++
				continue
			}
			spanPos, spanOK = s, true
			if spanPos < lo {
				spanPos = lo
			}
			break
		}
		ptOK := false
		for pj < len(pts) {
			k := pts[pj].K.UserKey[0]
			if k < lo || k >= hi {
				pj++
				continue
			}
			ptOK = true
			break
		}
		switch {
		case spanOK && (!ptOK || spanPos <= pts[pj].K.UserKey[0]):
			want = append(want, hEvent{marker: true, key: spanPos, span: si})
			si++
		case ptOK:
			k := pts[pj].K.UserKey[0]
			want = append(want, hEvent{key: k, span: covering(k)})
			pj++
		}
	}

	check := func(kv *base.InternalKV, w hEvent, tag string) {
		sym.Assert(len(kv.K.UserKey) == 1 && kv.K.UserKey[0] == w.key, tag+"-position")
		isMarker := kv.K.SeqNum() == base.SeqNumMax
		sym.Assert(isMarker == w.marker, tag+"-marker-or-point")
		sp := it.Span()
		if w.span < 0 {
			sym.Assert(sp == nil || sp.Empty(), tag+"-no-span-here")
			return
		}
		sym.Assert(sp != nil && len(sp.Keys) == 1, tag+"-span-present")
		if sp == nil || len(sp.Keys) != 1 {
			return
		}
		s, e := spans[w.span].Start[0], spans[w.span].End[0]
		if s < lo {
			s = lo
		}
		if e > hi {
			e = hi
		}
		sym.Assert(sp.Start[0] == s && sp.End[0] == e, tag+"-span-bounds-clipped")
		sym.Assert(sp.Keys[0].Value[0] == byte(w.span), tag+"-span-is-the-covering-one")
	}
	// InternalIterator.First only checks the upper bound and Last only the lower one: with
	// bounds the caller seeks to them (as Iterator.iterFirstWithinBounds/iterLastWithinBounds do)
	first := func() *base.InternalKV {
		if opts.LowerBound != nil {
			return it.SeekGE(opts.LowerBound, base.SeekGEFlagsNone)
		}
		return it.First()
	}
	last := func() *base.InternalKV {
		if opts.UpperBound != nil {
			return it.SeekLT(opts.UpperBound, base.SeekLTFlagsNone)
		}
		return it.Last()
	}
	n := 0
	for kv := first(); kv != nil; kv = it.Next() {
		sym.Assert(n < len(want), "forward-no-extra-stop")
		if n >= len(want) {
			return
		}
		check(kv, want[n], "forward")
		n++
	}
	sym.Assert(n == len(want), "forward-stops-everywhere")
	n = len(want)
	for kv := last(); kv != nil; kv = it.Prev() {
		n--
		sym.Assert(n >= 0, "backward-no-extra-stop")
		if n < 0 {
			return
		}
		check(kv, want[n], "backward")
	}
	sym.Assert(n == 0, "backward-stops-everywhere")
	sym.Reach("interleaved")
}
