package block

import (
	"encoding/binary"

	"github.com/cockroachdb/pebble/internal/crc"
	sym "github.com/cockroachdb/pebble/internal/verifsym"
)

// VerifHarness_C27_BlockChecksum: a block whose trailer carries the checksum of
// exactly data+type validates; altering any single byte of data, type or stored
// checksum makes validation fail (idealised checksum: no collision between the
// original and the altered bytes), and the check never reads outside the buffer.
func VerifHarness_C27_BlockChecksum() {
	n := 1 + sym.Choose("block-length", 4)
	data := sym.BytesN("block", n)
	b := make([]byte, n+TrailerLen)
	copy(b, data)
	b[n] = sym.U8("block-type")
	sum := crc.New(b[:n+1]).Value()
	binary.LittleEndian.PutUint32(b[n+1:], sum)
	bh := Handle{Offset: uint64(sym.U32("offset")), Length: uint64(n)}
	sym.Assert(ValidateChecksum(ChecksumTypeCRC32c, b, bh) == nil, "intact-block-validates")

	i := sym.Range("altered-offset", 0, n+TrailerLen-1)
	nv := sym.U8("altered-value")
	sym.Assume(nv != b[i])
	b[i] = nv
	// idealisation: different covered bytes, different CRC
	sym.Assume(sym.Implies(i <= n, crc.New(b[:n+1]).Value() != sum))
	var err error
	sym.NoPanic("validate-altered-block", func() { err = ValidateChecksum(ChecksumTypeCRC32c, b, bh) })
	sym.Assert(err != nil, "altered-block-is-rejected")
	sym.Reach("checksum")
}

// VerifHarness_C27_BlockChecksumAnyLength: the same lemma for a block of any
// length up to ~64 KiB and beyond (the length is symbolic, the buffer is one
// symbolic array): a block whose trailer carries the checksum of data+type
// validates, and after altering any one byte it does not. The checksum over a
// symbolic-length range is an uninterpreted function of (memory, offset,
// length); the bit-flip diagnostic that runs after a mismatch is stubbed.
func VerifHarness_C27_BlockChecksumAnyLength() {
	const maxLen = 70000
	n := sym.Range("block-length", 1, maxLen-TrailerLen)
	b := sym.Block("buffer", maxLen)[: n+TrailerLen : n+TrailerLen]
	sum := crc.New(b[:n+1]).Value()
	binary.LittleEndian.PutUint32(b[n+1:], sum)
	// writing the trailer does not change the checksum of the bytes before it (a fact the
	// range abstraction - a function of the whole buffer - forgets)
	sym.Assume(crc.New(b[:n+1]).Value() == sum)
	bh := Handle{Offset: uint64(sym.U32("offset")), Length: uint64(n)}
	sym.Assert(ValidateChecksum(ChecksumTypeCRC32c, b, bh) == nil, "intact-block-validates")

	i := sym.Range("altered-offset", 0, maxLen)
	sym.Assume(i < n+TrailerLen)
	nv := sym.U8("altered-value")
	sym.Assume(nv != b[i])
	b[i] = nv
	// idealisation: different covered bytes, different CRC; and (a fact about any checksum that
	// the range abstraction - a function of the whole buffer - forgets) bytes outside the covered
	// range do not influence it
	after := crc.New(b[:n+1]).Value()
	sym.Assume(sym.Implies(i <= n, after != sum))
	sym.Assume(sym.Implies(i > n, after == sum))
	var err error
	sym.NoPanic("validate-altered-block", func() { err = ValidateChecksum(ChecksumTypeCRC32c, b, bh) })
	sym.Assert(err != nil, "altered-block-is-rejected")
	sym.Reach("checksum-any-length")
}
