package block

import (
	"encoding/binary"

	"github.com/cockroachdb/pebble/internal/crc"
	sym "github.com/cockroachdb/pebble/internal/verifsym"
)

// VerifHarness_C27_BlockChecksum: a block whose trailer carries the checksum of
// exactly data+type validates; altering any single byte of data, type or stored
// checksum makes validation fail (idealised checksum: no collision between the
// original and the altered bytes), and the check never reads outside the buffer.
func VerifHarness_C27_BlockChecksum() {
	n := 1 + sym.Choose("block-length", 4)
	data := sym.BytesN("block", n)
	b := make([]byte, n+TrailerLen)
	copy(b, data)
	b[n] = sym.U8("block-type")
	sum := crc.New(b[:n+1]).Value()
	binary.LittleEndian.PutUint32(b[n+1:], sum)
	bh := Handle{Offset: uint64(sym.U32("offset")), Length: uint64(n)}
	sym.Assert(ValidateChecksum(ChecksumTypeCRC32c, b, bh) == nil, "intact-block-validates")

	i := sym.Range("altered-offset", 0, n+TrailerLen-1)
	nv := sym.U8("altered-value")
	sym.Assume(nv != b[i])
	b[i] = nv
	// idealisation: different covered bytes, different CRC
	sym.Assume(sym.Implies(i <= n, crc.New(b[:n+1]).Value() != sum))
	var err error
	sym.NoPanic("validate-altered-block", func() { err = ValidateChecksum(ChecksumTypeCRC32c, b, bh) })
	sym.Assert(err != nil, "altered-block-is-rejected")
	sym.Reach("checksum")
}
