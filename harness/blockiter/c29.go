package blockiter

import (
	"bytes"

	sym "github.com/cockroachdb/pebble/internal/verifsym"
)

// VerifHarness_C29_SyntheticTransforms: a synthetic prefix is applied and
// inverted without loss, and the packed prefix+suffix pair hands back exactly
// the prefix and suffix it was built from (also after RemoveSuffix).
func VerifHarness_C29_SyntheticTransforms() {
	prefix := SyntheticPrefix(sym.Bytes("prefix", 3))
	suffix := SyntheticSuffix(sym.Bytes("suffix", 3))
	key := sym.Bytes("key", 3)

	applied := prefix.Apply(key)
	sym.Assert(len(applied) == len(prefix)+len(key), "apply-length")
	sym.Assert(bytes.HasPrefix(applied, prefix), "apply-has-prefix")
	sym.Assert(bytes.Equal(prefix.Invert(applied), key), "invert-undoes-apply")

	ps := MakeSyntheticPrefixAndSuffix(prefix, suffix)
	sym.Assert(ps.IsUnset() == (len(prefix) == 0 && len(suffix) == 0), "unset-iff-both-empty")
	sym.Assert(ps.HasPrefix() == (len(prefix) > 0) && ps.HasSuffix() == (len(suffix) > 0), "has-flags")
	sym.Assert(int(ps.PrefixLen()) == len(prefix) && int(ps.SuffixLen()) == len(suffix), "lengths")
	sym.Assert(bytes.Equal(ps.Prefix(), prefix), "prefix-round-trips")
	sym.Assert(bytes.Equal(ps.Suffix(), suffix), "suffix-round-trips")
	ns := ps.RemoveSuffix()
	sym.Assert(bytes.Equal(ns.Prefix(), prefix) && !ns.HasSuffix() && len(ns.Suffix()) == 0, "remove-suffix-keeps-prefix")
	sym.Reach("transforms")
}
