package binaryfuse

import (
	sym "github.com/cockroachdb/pebble/internal/verifsym"
)

// The binary fuse filter is built from the hashes its writer collected: a key
// whose hash never reaches the builder is a false negative. The construction
// itself (a library peeling algorithm) is outside the encoder's reach; the
// collector is not.

// hCollector builds a collector holding n hashes in nb blocks; hash number i is i+1.
func hCollector(nb int, n uint) *hashCollector {
	hc := &hashCollector{}
	hc.Init()
	for b := 0; b < nb; b++ {
		blk := &hashBlock{}
		blk[0] = uint64(b*hashBlockLen) + 1
		blk[hashBlockLen-1] = uint64((b + 1) * hashBlockLen)
		hc.blocks = append(hc.blocks, blk)
		hc.curBlock = blk
	}
	hc.numHashes = n
	hc.lastHash = uint64(n)
	return hc
}

// VerifHarness_C26_FuseCollectorBlocks: from a collector state of 1..3 blocks
// whose last block is filled to one of the interesting levels (one hash, one
// short of full, exactly full), Blocks() yields every collected hash exactly
// once, in order: full blocks first, then the last block up to the number of
// hashes it holds. (The fill is a choice among fixed values, not a symbolic
// integer: a slice of a non-byte array with a symbolic length is not
// something the encoder represents.)
func VerifHarness_C26_FuseCollectorBlocks() {
	nb := 1 + sym.Choose("blocks", 3)
	lastFill := []uint{1, 2, hashBlockLen / 2, hashBlockLen - 1, hashBlockLen}[sym.Choose("last-block-fill", 5)]
	n := uint((nb-1)*hashBlockLen) + lastFill
	hc := hCollector(nb, n)
	sym.Assert(hc.NumHashes() == n, "count")
	var total uint
	calls := 0
	hc.Blocks()(func(b []uint64) bool {
		sym.Assert(calls < nb, "at-most-one-batch-per-block")
		if calls < nb {
			sym.Assert(len(b) > 0, "batch-not-empty")
			if len(b) > 0 {
				sym.Assert(b[0] == uint64(calls*hashBlockLen)+1, "batches-in-order")
			}
			if calls < nb-1 {
				sym.Assert(len(b) == hashBlockLen, "inner-blocks-are-full")
			}
		}
		total += uint(len(b))
		calls++
		return true
	})
	sym.Assert(total == n, "every-collected-hash-is-yielded")
	sym.Reach("yielded")
}

// VerifHarness_C26_FuseCollectorAdd: adding a new hash at the interesting
// fills (empty, one short of a block, exactly a block, one over) stores it as
// hash number n+1 in the right block, and a repeated hash is ignored.
func VerifHarness_C26_FuseCollectorAdd() {
	fills := []uint{0, 1, hashBlockLen - 1, hashBlockLen, hashBlockLen + 1, 2 * hashBlockLen}
	n := fills[sym.Choose("fill", len(fills))]
	nb := int((n + hashBlockLen - 1) / hashBlockLen)
	hc := hCollector(nb, n)
	h := sym.U64("hash")
	dup := n != 0 && h == hc.lastHash
	hc.Add(h)
	if dup {
		sym.Assert(hc.NumHashes() == n, "consecutive-duplicate-ignored")
		sym.Reach("duplicate")
		return
	}
	sym.Assert(hc.NumHashes() == n+1, "count-grows")
	sym.Assert(len(hc.blocks) == int(n/hashBlockLen)+1, "block-count")
	sym.Assert(hc.blocks[n/hashBlockLen][n%hashBlockLen] == h, "stored-in-its-slot")
	var total uint
	hc.Blocks()(func(b []uint64) bool { total += uint(len(b)); return true })
	sym.Assert(total == n+1, "every-collected-hash-is-yielded")
	sym.Reach("added")
}
