package pebble

import (
	"github.com/cockroachdb/pebble/internal/base"
	sym "github.com/cockroachdb/pebble/internal/verifsym"
)

// The *DB harnesses run the same oracles as their namesakes, but the iterator
// is the one the real code builds: DB.newIter, finishInitializingIter,
// Iterator.constructPointIter (one real levelIter per L0 sublevel and per
// non-empty level, range-deletion wiring, the options handed down to the
// tables), mergingIter, Iterator - over a version of stub tables (tables.go),
// through the DB or through a snapshot.

func hWithDB(f func()) {
	hUseDB = true
	f()
}

func hWithLeanDB(f func()) {
	hUseDB, hDBLean = true, true
	f()
}

func VerifHarness_C01_ReadsDB() { hWithDB(func() { hReads(2, 2, hPointAndRangeKinds) }) }

// three levels (L0, L1, L2), fixed placement; three writes in two levels did not finish in 25 minutes
func VerifHarness_C01_ReadsDB3Levels_Thorough() {
	hWithLeanDB(func() { hReads(2, 3, hPointAndRangeKinds) })
}

// hCloseReleases: closing an iterator built by DB.newIter releases the read-state reference.
func VerifHarness_C01_IterCloseReleases() {
	h := hHistory(1, []base.InternalKeyKind{hKSet})
	hPlace(h, 1)
	levels := hBuildLevels(h, 1)
	d := hDBOver(levels, 2)
	it := d.newIter(nil, nil, newIterOpts{}, nil)
	sym.Assert(d.readState.val.refcnt.Load() == 2, "iterator-holds-read-state")
	sym.Assert(it.First(), "sees-the-key")
	sym.Assert(it.Close() == nil, "close")
	sym.Assert(d.readState.val.refcnt.Load() == 1, "read-state-reference-released")
	sym.Reach("closed")
}
