package pebble

import (
	"github.com/cockroachdb/pebble/internal/base"
	sym "github.com/cockroachdb/pebble/internal/verifsym"
)

type hIKey struct {
	key     byte
	trailer uint64
}

func hIK(kv *base.InternalKV) hIKey {
	sym.Assert(len(kv.K.UserKey) == 1, "ikey-length")
	return hIKey{kv.K.UserKey[0], uint64(kv.K.Trailer)}
}

var hUseLevelIter bool // set by the *LevelIter harnesses: the bottom level is a real levelIter

func hNewMerging(h []hWrite, L int, snapshot base.SeqNum, lower, upper []byte) *mergingIter {
	levels := hBuildLevels(h, L)
	if hUseLevelIter {
		hWithLevelIter(levels, IterOptions{LowerBound: lower, UpperBound: upper})
	}
	for i := range levels {
		levels[i].iter.SetBounds(lower, upper)
	}
	mi := &mergingIter{}
	var stats base.InternalIteratorStats
	mi.init(&IterOptions{LowerBound: lower, UpperBound: upper}, &stats, base.DefaultComparer.Compare, base.DefaultComparer.Split, levels...)
	mi.snapshot = snapshot
	return mi
}

// hEmitted: the model's verdict for point write w - it is emitted by the merged
// internal iteration iff it is visible and no visible newer range tombstone
// covers its key.
func hEmitted(h []hWrite, w hWrite, snapshot base.SeqNum) bool {
	e := sym.And(w.kind != hKRDel, w.seq < snapshot)
	for _, d := range h {
		if d.seq > w.seq {
			covered := sym.And(sym.And(d.kind == hKRDel, d.seq < snapshot), sym.And(d.key <= w.key, w.key < d.end))
			e = sym.And(e, !covered)
		}
	}
	return e
}

// hMergedScan runs First/Next to exhaustion and checks the emitted internal keys
// against the model: exactly the visible point writes not covered by a visible
// newer range tombstone, ordered by user key ascending then seqnum descending.
func hMergedScan(mi *mergingIter, h []hWrite, snapshot base.SeqNum, lo, hi byte) []hIKey {
	var out []hIKey
	for kv := mi.First(); kv != nil; kv = mi.Next() {
		out = append(out, hIK(kv))
		sym.Assert(len(out) <= len(h), "scan-terminates")
	}
	sym.Assert(mi.Error() == nil, "no-error")
	for i := 1; i < len(out); i++ {
		a, b := out[i-1], out[i]
		sym.Assert(sym.Or(a.key < b.key, sym.And(a.key == b.key, a.trailer > b.trailer)), "internal-order")
	}
	for _, w := range h {
		want := sym.And(hEmitted(h, w, snapshot), sym.And(w.key >= lo, w.key < hi))
		wt := uint64(base.MakeTrailer(w.seq, w.kind))
		found := false
		for _, o := range out {
			found = sym.Or(found, sym.And(o.key == w.key, o.trailer == wt))
		}
		sym.Assert(found == want, "emitted-iff-model")
	}
	// nothing else is emitted: every emitted key is one of the writes
	for _, o := range out {
		is := false
		for _, w := range h {
			is = sym.Or(is, sym.And(o.key == w.key, o.trailer == uint64(base.MakeTrailer(w.seq, w.kind))))
		}
		sym.Assert(is, "emitted-is-a-write")
	}
	return out
}

func hBoundsFor(bounded bool) (lower, upper []byte, lo, hi byte) {
	lo, hi = 0, 255
	if bounded {
		lo, hi = sym.U8("lower"), sym.U8("upper")
		sym.Assume(sym.And(sym.And(lo >= hKeyLo, lo < hi), hi <= hKeyHi+1))
		lower, upper = []byte{lo}, []byte{hi}
	}
	return
}

// hMergedOps: an arbitrary short sequence of positioning operations on a fresh
// mergingIter lands where the validated forward scan says: position is tracked
// as an index term into the scan list, so direction switches and seeks are
// decided for every key and every stack content.
func hMergedOps(N, L, nOps int, kinds []base.InternalKeyKind, bounded bool) {
	hMergedOpsP(N, L, nOps, false, kinds, bounded)
}

// With stepsAfterFirst, the first operation is a positioning one (First, Last, SeekGE, SeekLT)
// and the following ones are Next/Prev only (direction switches from every kind of position).
func hMergedOpsP(N, L, nOps int, stepsAfterFirst bool, kinds []base.InternalKeyKind, bounded bool) {
	n := 1 + sym.Choose("n", N)
	h := hHistory(n, kinds)
	hPlace(h, L)
	if hUseLevelIter {
		hNoRangeDelAtBottom(h, L)
	}
	snapshot := base.SeqNum(sym.Range("snapshot", 1, n+1))
	lower, upper, lo, hi := hBoundsFor(bounded)
	scan := hMergedScan(hNewMerging(h, L, snapshot, lower, upper), h, snapshot, lo, hi)
	S := uint64(len(scan))

	mi := hNewMerging(h, L, snapshot, lower, upper)
	idx := S // position as an index into scan; S = exhausted forward, ^0 = exhausted backward
	valid := false
	for step := 0; step < nOps; step++ {
		var kv *base.InternalKV
		nOpKinds := 4
		if valid {
			nOpKinds = 6
		}
		op := 0
		if stepsAfterFirst && step > 0 {
			if !valid {
				break
			}
			op = 4 + sym.Choose("step", 2)
		} else {
			op = sym.Choose("op", nOpKinds)
		}
		switch op {
		case 0:
			kv = mi.First()
			idx = 0
		case 1:
			kv = mi.Last()
			idx = S - 1
		case 2:
			k := sym.U8("seek")
			sym.Assume(sym.And(k >= lo, sym.And(k >= hKeyLo, k <= hKeyHi+1))) // the caller keeps seek keys within the lower bound
			kv = mi.SeekGE([]byte{k}, base.SeekGEFlagsNone)
			idx = 0
			for _, e := range scan {
				idx += sym.Ite(e.key < k, uint64(1), uint64(0))
			}
		case 3:
			k := sym.U8("seek")
			sym.Assume(sym.And(k <= hi, sym.And(k >= hKeyLo, k <= hKeyHi+1)))
			kv = mi.SeekLT([]byte{k}, base.SeekLTFlagsNone)
			idx = ^uint64(0)
			for _, e := range scan {
				idx += sym.Ite(e.key < k, uint64(1), uint64(0))
			}
		case 4:
			kv = mi.Next()
			idx++
		case 5:
			kv = mi.Prev()
			idx--
		}
		valid = kv != nil
		sym.Assert(valid == (idx < S), "op-validity")
		if valid {
			cur := hIK(kv)
			for i, e := range scan {
				sym.Assert(sym.Implies(idx == uint64(i), sym.And(cur.key == e.key, cur.trailer == e.trailer)), "op-position")
			}
		}
	}
	sym.Assert(mi.Error() == nil, "no-error")
	sym.Reach("ops")
}

func VerifHarness_C33_Scan() {
	n := 1 + sym.Choose("n", 3)
	h := hHistory(n, hPointAndRangeKinds)
	hPlace(h, 3)
	snapshot := base.SeqNum(sym.Range("snapshot", 1, n+1))
	hMergedScan(hNewMerging(h, 3, snapshot, nil, nil), h, snapshot, 0, 255)
	sym.Reach("scan")
}

func VerifHarness_C33_Ops() { hMergedOpsP(2, 2, 3, true, hPointAndRangeKinds, false) }

// three writes restricted to SET and RANGEDEL (tombstones over and under points, across levels)
func VerifHarness_C33_OpsRangeDel() {
	hMergedOpsP(3, 2, 3, true, []base.InternalKeyKind{hKSet, hKRDel}, false)
}

func VerifHarness_C33_OpsAny_Deep() { hMergedOps(2, 2, 3, hPointAndRangeKinds, false) }

func VerifHarness_C33_Ops3_Deep() { hMergedOps(3, 2, 2, hPointAndRangeKinds, false) }

func VerifHarness_C33_OpsBounded_Thorough() {
	hMergedOpsP(3, 2, 3, true, []base.InternalKeyKind{hKSet, hKRDel}, true)
}
func VerifHarness_C33_ThreeLevels_Deep() { hMergedOpsP(3, 3, 3, true, hPointAndRangeKinds, false) }

// The bottom level is the real levelIter over two files (point keys only there).
func hNoRangeDelAtBottom(h []hWrite, L int) {
	for _, w := range h {
		sym.Assume(sym.Or(w.kind != hKRDel, w.level != L-1))
	}
}

func VerifHarness_C33_LevelIterOps() {
	hUseLevelIter = true
	hMergedOpsP(2, 2, 3, true, hPointAndRangeKinds, false)
}

func VerifHarness_C33_LevelIterOps3_Thorough() {
	hUseLevelIter = true
	hMergedOpsP(3, 2, 3, true, []base.InternalKeyKind{hKSet, hKRDel}, true)
}
