package pebble

import (
	"sync"

	"github.com/cockroachdb/pebble/internal/base"
	sym "github.com/cockroachdb/pebble/internal/verifsym"
)

// hCommitRec is what the harness records about one batch handed to commitEnv.write.
type hCommitRec struct {
	lo, hi  base.SeqNum
	applied bool
}

// hCommitMonitor observes the commit pipeline from its environment callbacks.
// Every access to its state is one sym.Atomic step (one scheduling point under the engine, a
// global lock natively).
type hCommitMonitor struct {
	start   base.SeqNum
	wal     []*hCommitRec // in write (WAL) order
	byBatch map[*Batch]*hCommitRec
	lastVis base.SeqNum
	fail    string
}

func (m *hCommitMonitor) bad(s string) {
	if m.fail == "" {
		m.fail = s
	}
}

// checkVisible observes visibleSeqNum (the load happens under the monitor's lock, so observations
// are totally ordered and a decrease between two of them is a real decrease) and returns it.
func (m *hCommitMonitor) checkVisible(vis *base.AtomicSeqNum) (v base.SeqNum) {
	sym.Atomic(func() { v = m.checkVisibleLocked(vis) })
	return v
}

func (m *hCommitMonitor) checkVisibleLocked(vis *base.AtomicSeqNum) base.SeqNum {
	v := vis.Load()
	if v < m.lastVis {
		m.bad("visible seqnum decreased")
	}
	m.lastVis = v
	boundary := v == m.start
	for _, r := range m.wal {
		if v == r.hi {
			boundary = true
		}
		if r.lo < v && v < r.hi {
			m.bad("visible seqnum inside a batch")
		}
		if r.hi <= v && !r.applied {
			m.bad("visible seqnum covers an unapplied batch")
		}
	}
	if !boundary {
		m.bad("visible seqnum is not a batch boundary")
	}
	return v
}

// hCommit: K concurrent committers through the real commitPipeline with a stub
// environment; the schedule is a solver variable. The monitor checks seqnum
// assignment in WAL order, monotone publication, no publication inside or
// beyond an unapplied batch (C06), and read-your-writes on return (C07).
func hCommit(K int, withSync bool) { hCommitR(K, withSync, 0) }

// hCommitR adds a reader thread that takes `reads` snapshots of visibleSeqNum while the commits
// are in flight and checks, with the real base.Visible, that each batch is visible entirely
// or not at all, and only once applied (C06).
func hCommitR(K int, withSync bool, reads int) {
	var logSeq, visSeq base.AtomicSeqNum
	start := base.SeqNum(sym.U8("start")) + 1
	logSeq.Store(start)
	visSeq.Store(start)
	mon := &hCommitMonitor{start: start, byBatch: map[*Batch]*hCommitRec{}, lastVis: start}

	env := commitEnv{
		logSeqNum:     &logSeq,
		visibleSeqNum: &visSeq,
		write: func(b *Batch, wg *sync.WaitGroup, err *error) (*memTable, error) {
			sym.Atomic(func() {
				r := &hCommitRec{lo: b.SeqNum(), hi: b.SeqNum() + base.SeqNum(b.Count())}
				if len(mon.wal) == 0 {
					if r.lo != start {
						mon.bad("first batch does not start at logSeqNum")
					}
				} else if mon.wal[len(mon.wal)-1].hi != r.lo {
					mon.bad("seqnum ranges not contiguous in WAL order")
				}
				mon.wal = append(mon.wal, r)
				mon.byBatch[b] = r
			})
			if wg != nil {
				wg.Done() // the "log syncer" acknowledges immediately
			}
			return nil, nil
		},
		apply: func(b *Batch, _ *memTable) error {
			sym.Atomic(func() {
				mon.checkVisibleLocked(&visSeq)
				mon.byBatch[b].applied = true
			})
			return nil
		},
	}
	p := newCommitPipeline(env)

	var wg sync.WaitGroup
	for i := 0; i < K; i++ {
		count := 1 + sym.Choose("count", 2)
		syncWAL := withSync && sym.Bool("sync")
		b := newBatch(nil)
		for j := 0; j < count; j++ {
			_ = b.Set([]byte{'k'}, nil, nil)
		}
		wg.Add(1)
		go func() {
			defer wg.Done()
			if err := p.Commit(b, syncWAL, false); err != nil {
				sym.Atomic(func() { mon.bad("commit error") })
				return
			}
			sym.Atomic(func() {
				if v := mon.checkVisibleLocked(&visSeq); v < mon.byBatch[b].hi {
					mon.bad("Commit returned before its batch was visible")
				}
			})
		}()
	}
	if reads > 0 {
		wg.Add(1)
		go func() {
			defer wg.Done()
			for i := 0; i < reads; i++ {
				sym.Atomic(func() {
					v := visSeq.Load() // a reader's snapshot
					for _, r := range mon.wal {
						first := base.Visible(r.lo, v, base.SeqNumMax)
						for s := r.lo; s < r.hi; s++ {
							if base.Visible(s, v, base.SeqNumMax) != first {
								mon.bad("reader sees part of a batch")
							}
						}
						if first && !r.applied {
							mon.bad("reader sees an unapplied batch")
						}
					}
				})
			}
		}()
	}
	wg.Wait()
	mon.checkVisible(&visSeq)
	sym.Assert(mon.fail != "reader sees part of a batch" && mon.fail != "reader sees an unapplied batch", "reader-sees-whole-applied-batches")
	sym.Assert(mon.fail != "visible seqnum decreased", "visibility-monotone")
	sym.Assert(mon.fail != "visible seqnum inside a batch" && mon.fail != "visible seqnum is not a batch boundary", "batch-atomic-visibility")
	sym.Assert(mon.fail != "visible seqnum covers an unapplied batch", "no-visibility-before-apply")
	sym.Assert(mon.fail != "Commit returned before its batch was visible", "read-your-writes")
	sym.Assert(mon.fail == "", "commit-pipeline-monitor")
	sym.Assert(visSeq.Load() == logSeq.Load(), "all-published-at-quiescence")
	sym.Reach("commit")
}

func VerifHarness_C07_Conc_Commit2() { hCommit(2, false) }

func VerifHarness_C07_Conc_Commit3_Deep() {
	sym.MaxPreempt(2)
	hCommit(3, true)
}

func VerifHarness_C07_Conc_Commit2Sync_Thorough() { hCommit(2, true) }

func VerifHarness_C06_Conc_Atomicity() { hCommitR(2, false, 1) }

func VerifHarness_C06_Conc_AtomicitySync_Deep() {
	sym.MaxPreempt(2)
	hCommitR(2, true, 2)
}
