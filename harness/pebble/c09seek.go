package pebble

import (
	"bytes"
	"context"

	"github.com/cockroachdb/pebble/internal/base"
	"github.com/cockroachdb/pebble/internal/keyspan"
	"github.com/cockroachdb/pebble/internal/treesteps"
	sym "github.com/cockroachdb/pebble/internal/verifsym"
)

// hSuffixComparer2: one prefix byte plus an optional one-byte suffix; a key without suffix sorts
// before its suffixed versions, suffixes order by descending byte value (newer first).
func hSuffixCmp2(a, b []byte) int {
	if len(a) == 0 || len(b) == 0 {
		return len(a) - len(b)
	}
	return bytes.Compare(b, a)
}

var hSuffixComparer2 = &base.Comparer{
	Name:                 "verif.suffix2",
	Split:                func(k []byte) int { return 1 },
	ComparePointSuffixes: hSuffixCmp2,
	CompareRangeSuffixes: hSuffixCmp2,
	Compare: func(a, b []byte) int {
		if c := bytes.Compare(a[:1], b[:1]); c != 0 {
			return c
		}
		return hSuffixCmp2(a[1:], b[1:])
	},
	Equal: func(a, b []byte) bool { return bytes.Equal(a, b) },
}

// hFilteredPoints is a point iterator that uses the range-key mask the way an
// sstable iterator does (reader_iter_single_lvl.go, resolveMaybeExcluded):
// every point is a block of its own whose property is the point's suffix; a
// block the filter does not intersect is skipped - going forward if its upper
// separator (the point's key) is within the filter's upper bound, going
// backward if its lower separator (the previous point's key) is within the
// filter's lower bound. The other bound is the caller's obligation.
type hFilteredPoints struct {
	kvs    []base.InternalKV
	i      int
	filter *rangeKeyMasking
}

func (s *hFilteredPoints) excluded(j int, dir int) bool {
	ok, _ := s.filter.Intersects(s.kvs[j].K.UserKey[1:])
	if ok {
		return false
	}
	if dir > 0 {
		return s.filter.KeyIsWithinUpperBound(s.kvs[j].K.UserKey)
	}
	return j > 0 && s.filter.KeyIsWithinLowerBound(s.kvs[j-1].K.UserKey)
}

func (s *hFilteredPoints) settle(dir int) *base.InternalKV {
	for s.i >= 0 && s.i < len(s.kvs) && s.excluded(s.i, dir) {
		s.i += dir
	}
	if s.i < 0 || s.i >= len(s.kvs) {
		return nil
	}
	return &s.kvs[s.i]
}

func (s *hFilteredPoints) SeekGE(key []byte, flags base.SeekGEFlags) *base.InternalKV {
	s.i = 0
	for s.i < len(s.kvs) && hSuffixComparer2.Compare(s.kvs[s.i].K.UserKey, key) < 0 {
		s.i++
	}
	return s.settle(+1)
}
func (s *hFilteredPoints) SeekPrefixGE(prefix, key []byte, flags base.SeekGEFlags) *base.InternalKV {
	return s.SeekGE(key, flags)
}
func (s *hFilteredPoints) SeekLT(key []byte, flags base.SeekLTFlags) *base.InternalKV {
	s.i = len(s.kvs) - 1
	for s.i >= 0 && hSuffixComparer2.Compare(s.kvs[s.i].K.UserKey, key) >= 0 {
		s.i--
	}
	return s.settle(-1)
}
func (s *hFilteredPoints) First() *base.InternalKV { s.i = 0; return s.settle(+1) }
func (s *hFilteredPoints) Last() *base.InternalKV  { s.i = len(s.kvs) - 1; return s.settle(-1) }
func (s *hFilteredPoints) Next() *base.InternalKV {
	if s.i < len(s.kvs) {
		s.i++
	}
	return s.settle(+1)
}
func (s *hFilteredPoints) NextPrefix(succKey []byte) *base.InternalKV { return s.Next() }
func (s *hFilteredPoints) Prev() *base.InternalKV {
	if s.i >= 0 {
		s.i--
	}
	return s.settle(-1)
}
func (s *hFilteredPoints) Error() error                  { return nil }
func (s *hFilteredPoints) Close() error                  { return nil }
func (s *hFilteredPoints) SetBounds(lower, upper []byte) {}
func (s *hFilteredPoints) SetContext(context.Context)    {}
func (s *hFilteredPoints) String() string                { return "hfiltered" }
func (s *hFilteredPoints) TreeStepsNode() treesteps.NodeInfo {
	return treesteps.NodeInfof(s, "hfiltered")
}

// VerifHarness_C09_MaskedSeeks: the interleaving iterator with the real
// rangeKeyMasking as its mask, over a point iterator that skips blocks through
// that mask the way sstable iterators do. After any first positioning (a seek
// that may leave the iterator under the masking range key), a SeekLT followed
// by Prev steps - and a SeekGE followed by Next steps - returns exactly the
// points the masking rule leaves visible: a point is hidden iff it lies under
// the range key and is older than it, never a point outside the range key.
func VerifHarness_C09_MaskedSeeks() {
	filter := &hMaskFilterBySuffix{}
	parent := &Iterator{rangeKey: &iteratorRangeKeyState{}}
	parent.opts.RangeKeyMasking.Suffix = []byte{255} // every suffixed range key masks
	parent.opts.RangeKeyMasking.Filter = func() BlockPropertyFilterMask { return filter }
	var m rangeKeyMasking
	m.init(parent, hSuffixComparer2)

	// one range key [start,end) with suffix r; four points at distinct prefixes with suffixes
	start, end, r := sym.U8("span-start"), sym.U8("span-end"), sym.U8("span-suffix")
	sym.Assume(sym.And(sym.And(start >= 'a', start < end), end <= 'f'))
	span := keyspan.Span{Start: []byte{start}, End: []byte{end},
		Keys: []keyspan.Key{{Trailer: base.MakeTrailer(9, base.InternalKeyKindRangeKeySet), Suffix: []byte{r}}}}
	const np = 4
	var kvs []base.InternalKV
	prefixes := []byte{'a', 'b', 'd', 'e'}
	sfx := make([]byte, np)
	for i := 0; i < np; i++ {
		sfx[i] = sym.U8("point-suffix")
		kvs = append(kvs, base.InternalKV{K: base.MakeInternalKey([]byte{prefixes[i], sfx[i]}, base.SeqNum(i+1), base.InternalKeyKindSet)})
	}
	pts := &hFilteredPoints{kvs: kvs, i: -1, filter: &m}
	var ii keyspan.InterleavingIter
	ii.Init(hSuffixComparer2, pts, keyspan.NewIter(hSuffixComparer2.Compare, []keyspan.Span{span}), keyspan.InterleavingIterOpts{Mask: &m})

	// hidden iff under the range key and older than it (suffix order: larger byte = newer)
	hidden := func(i int) bool {
		return sym.And(sym.And(prefixes[i] >= start, prefixes[i] < end), sfx[i] < r)
	}
	isPoint := func(kv *base.InternalKV) bool { return kv != nil && kv.K.Kind() == base.InternalKeyKindSet }

	// any first positioning
	k0 := sym.U8("first-seek")
	sym.Assume(sym.And(k0 >= 'a', k0 <= 'f'))
	if sym.Bool("first-seek-ge") {
		ii.SeekGE([]byte{k0}, base.SeekGEFlagsNone)
	} else {
		ii.SeekLT([]byte{k0}, base.SeekLTFlagsNone)
	}

	k := sym.U8("seek")
	sym.Assume(sym.And(k >= 'a', k <= 'f'))
	var got []byte
	if sym.Bool("reverse") {
		for kv := ii.SeekLT([]byte{k}, base.SeekLTFlagsNone); kv != nil; kv = ii.Prev() {
			if isPoint(kv) {
				got = append(got, kv.K.UserKey[0])
			}
			sym.Assert(len(got) <= np, "terminates")
		}
		j := 0
		for i := np - 1; i >= 0; i-- {
			if prefixes[i] >= k {
				continue
			}
			if hidden(i) {
				continue
			}
			sym.Assert(j < len(got) && got[j] == prefixes[i], "visible-point-returned-in-order")
			j++
		}
		sym.Assert(j == len(got), "nothing-else-returned")
	} else {
		for kv := ii.SeekGE([]byte{k}, base.SeekGEFlagsNone); kv != nil; kv = ii.Next() {
			if isPoint(kv) {
				got = append(got, kv.K.UserKey[0])
			}
			sym.Assert(len(got) <= np, "terminates")
		}
		j := 0
		for i := 0; i < np; i++ {
			if prefixes[i] < k {
				continue
			}
			if hidden(i) {
				continue
			}
			sym.Assert(j < len(got) && got[j] == prefixes[i], "visible-point-returned-in-order")
			j++
		}
		sym.Assert(j == len(got), "nothing-else-returned")
	}
	sym.Reach("sought")
}

// hMaskFilterBySuffix: a block (one point) intersects iff its suffix is not older than the
// mask suffix it was last given.
type hMaskFilterBySuffix struct{ suffix []byte }

func (f *hMaskFilterBySuffix) Name() string { return "verif.mask.suffix" }
func (f *hMaskFilterBySuffix) Intersects(prop []byte) (bool, error) {
	return len(prop) == 0 || len(f.suffix) == 0 || prop[0] >= f.suffix[0], nil
}
func (f *hMaskFilterBySuffix) SyntheticSuffixIntersects(p, s []byte) (bool, error) { return true, nil }
func (f *hMaskFilterBySuffix) SetSuffix(suffix []byte) error {
	f.suffix = append([]byte(nil), suffix...)
	return nil
}
