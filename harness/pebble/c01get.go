package pebble

import (
	"github.com/cockroachdb/pebble/internal/base"
	sym "github.com/cockroachdb/pebble/internal/verifsym"
)

// hGets: DB.Get and Snapshot.Get - the real getInternal / getIter (level by
// level descent: L0 sublevels newest first, then L1.., one table per level
// picked by its bounds, range tombstones of a level shadowing everything
// below, visibility at the read sequence number) and the Iterator's
// single-key merge on top - return for every key of the alphabet what the
// sequential model says.
func hGets(N, L int, kinds []base.InternalKeyKind, snapshotOnly bool) {
	n := 1 + sym.Choose("n", N)
	h := hHistory(n, kinds)
	hPlace(h, L)
	readSeq := base.SeqNum(sym.Range("readSeq", 1, n+1))
	d := hDBOver(hBuildLevels(h, L), readSeq)
	var snap *Snapshot
	if snapshotOnly || sym.Bool("through-snapshot") {
		snap = &Snapshot{db: d, seqNum: readSeq}
		d.mu.versions.visibleSeqNum.Store(base.SeqNum(n + 1))
	}
	// one lookup of a symbolic key of the alphabet (every key is covered; lookups are independent)
	k := sym.U8("probe")
	sym.Assume(sym.And(k >= hKeyLo, k <= hKeyHi))
	val, closer, err := d.getInternal(hKeyBytes(k), nil, snap)
	want := hModelGet(h, k, readSeq)
	sym.Assert(err == nil || err == ErrNotFound, "get-no-error")
	sym.Assert((err == nil) == want.present, "get-presence")
	if err == nil {
		p, nn := hPack(val)
		sym.Assert(sym.And(p == want.packed, nn == want.n), "get-value")
		sym.Assert(closer != nil, "get-closer")
		if closer != nil {
			sym.Assert(closer.Close() == nil, "get-close")
		}
	}
	sym.Assert(d.readState.val.refcnt.Load() == 1, "read-state-references-released")
	sym.Reach("gets")
}

func VerifHarness_C01_Gets() { hGets(2, 2, hPointAndRangeKinds, false) }

func VerifHarness_C01_Gets3_Thorough() {
	hDBLean = true
	hGets(3, 2, hPointAndRangeKinds, false)
}

func VerifHarness_C01_GetsCompactedKinds() { hGets(2, 2, hCompactedKinds, false) }

func VerifHarness_C01_Gets3Levels_Thorough() {
	hDBLean = true
	hGets(2, 3, []base.InternalKeyKind{hKSet, hKDel, hKMerge, hKRDel}, false)
}

// Snapshot.Get: reads at the snapshot's sequence number while later writes are visible in the DB
func VerifHarness_C03_SnapshotGet() { hGets(2, 2, hPointAndRangeKinds, true) }

func VerifHarness_C03_SnapshotGet3_Thorough() {
	hDBLean = true
	hGets(3, 2, hPointAndRangeKinds, true)
}
