package pebble

import (
	"github.com/cockroachdb/pebble/internal/base"
	sym "github.com/cockroachdb/pebble/internal/verifsym"
)

// VerifHarness_C03_LaterWritesInvisible: a snapshot's reads are those of the
// history prefix that existed when it was taken: writes with sequence numbers
// at or above the snapshot - wherever flushes and compactions have put them in
// the levels - change nothing that a scan or a seek at the snapshot returns.
func VerifHarness_C03_LaterWritesInvisible() {
	N := 3
	if sym.Thorough() {
		N = 4
	}
	n := 2 + sym.Choose("n", N-1)
	h := hHistory(n, hPointAndRangeKinds)
	hPlace(h, 2)
	snap := 1 + sym.Choose("snapshot-after", n) // the snapshot is taken after this many writes
	prefix := h[:snap]
	readSeq := base.SeqNum(snap + 1)

	it := hNewIterator(hBuildLevels(h, 2), readSeq, nil)
	var out []hOut
	for valid := it.First(); valid; valid = it.Next() {
		out = append(out, hCur(it))
		sym.Assert(len(out) <= 3, "scan-terminates")
	}
	sym.Assert(it.Error() == nil, "no-error")
	hCheckScan(out, prefix, base.SeqNumMax, "snapshot-scan") // the model knows only the prefix
	for q := hKeyLo; q <= hKeyHi; q++ {
		want := hModelGet(prefix, q, base.SeqNumMax)
		valid := it.SeekGE([]byte{q})
		if valid {
			o := hCur(it)
			sym.Assert(sym.Implies(o.key == q, sym.And(want.present, sym.And(o.packed == want.packed, o.n == want.n))), "snapshot-get")
			sym.Assert(sym.Implies(o.key != q, !want.present), "snapshot-get-absent")
		} else {
			sym.Assert(!want.present, "snapshot-get-absent")
		}
	}
	sym.Reach("snapshot-reads")
}
