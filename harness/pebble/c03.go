package pebble

import (
	"github.com/cockroachdb/pebble/internal/base"
	sym "github.com/cockroachdb/pebble/internal/verifsym"
)

// VerifHarness_C03_LaterWritesInvisible: a snapshot's reads are those of the
// history prefix that existed when it was taken: writes with sequence numbers
// at or above the snapshot - wherever flushes and compactions have put them in
// the levels - change nothing that a scan or a seek at the snapshot returns.
func VerifHarness_C03_LaterWritesInvisible() { hLaterWritesInvisible(3) }

// ... with the iterator built by the real DB.newIter (through the DB at that visible sequence
// number or through a snapshot while later writes are visible), over stub tables
func VerifHarness_C03_LaterWritesInvisibleDB() { hWithDB(func() { hLaterWritesInvisible(2) }) }

func hLaterWritesInvisible(N int) {
	n := 2 + sym.Choose("n", N-1)
	h := hHistory(n, hPointAndRangeKinds)
	hPlace(h, 2)
	snap := 1 + sym.Choose("snapshot-after", n) // the snapshot is taken after this many writes
	prefix := h[:snap]
	readSeq := base.SeqNum(snap + 1)

	it := hNewIterator(hBuildLevels(h, 2), readSeq, nil)
	var out []hOut
	for valid := it.First(); valid; valid = it.Next() {
		out = append(out, hCur(it))
		sym.Assert(len(out) <= 3, "scan-terminates")
	}
	sym.Assert(it.Error() == nil, "no-error")
	hCheckScan(out, prefix, base.SeqNumMax, "snapshot-scan") // the model knows only the prefix
	for q := hKeyLo; q <= hKeyHi; q++ {
		want := hModelGet(prefix, q, base.SeqNumMax)
		valid := it.SeekGE([]byte{q})
		if valid {
			o := hCur(it)
			sym.Assert(sym.Implies(o.key == q, sym.And(want.present, sym.And(o.packed == want.packed, o.n == want.n))), "snapshot-get")
			sym.Assert(sym.Implies(o.key != q, !want.present), "snapshot-get-absent")
		} else {
			sym.Assert(!want.present, "snapshot-get-absent")
		}
	}
	sym.Reach("snapshot-reads")
}

// VerifHarness_C03_SnapshotList: the live-snapshot list that compactions read
// (toSlice for the stripes, earliest for elision and delete-only compactions):
// snapshots are opened in creation order with non-decreasing sequence numbers
// and closed in any order; the list always yields exactly the still-open
// snapshots' sequence numbers in ascending order, and earliest() is the
// smallest of them (or "none").
func VerifHarness_C03_SnapshotList() {
	var l snapshotList
	l.init()
	n := 1 + sym.Choose("snapshots", 3)
	snaps := make([]*Snapshot, n)
	var prev base.SeqNum
	for i := range snaps {
		s := base.SeqNum(sym.U8("seqnum"))
		sym.Assume(s >= prev)
		prev = s
		snaps[i] = &Snapshot{seqNum: s}
		l.pushBack(snaps[i])
	}
	open := make([]bool, n)
	for i := range open {
		open[i] = true
	}
	for step, k := 0, sym.Choose("closes", n+1); step < k; step++ {
		i := sym.Choose("close-which", n)
		if !open[i] {
			continue
		}
		l.remove(snaps[i])
		open[i] = false
	}
	var want []base.SeqNum
	for i := range snaps {
		if open[i] {
			want = append(want, snaps[i].seqNum)
		}
	}
	got := l.toSlice()
	sym.Assert(len(got) == len(want) && l.count() == len(want) && l.empty() == (len(want) == 0), "open-snapshots-listed")
	if len(got) == len(want) {
		for i := range got {
			sym.Assert(got[i] == want[i], "listed-in-ascending-order")
		}
	}
	if len(want) == 0 {
		sym.Assert(l.earliest() == base.SeqNum(^uint64(0)), "no-snapshot-no-earliest")
	} else {
		sym.Assert(l.earliest() == want[0], "earliest-is-the-smallest-open-snapshot")
	}
	sym.Reach("snapshot-list")
}
