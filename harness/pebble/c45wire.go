package pebble

import (
	"context"

	"github.com/cockroachdb/pebble/internal/base"
	"github.com/cockroachdb/pebble/internal/keyspan"
	"github.com/cockroachdb/pebble/internal/manifest"
	sym "github.com/cockroachdb/pebble/internal/verifsym"
	"github.com/cockroachdb/pebble/sstable"
	"github.com/cockroachdb/pebble/sstable/block"
)

// VerifHarness_C45_HideObsoleteWiring: the internal scan's iterator stack as
// the real constructPointIter builds it over a version - levelIter per level,
// mergingIter, range-deletion merging, pointCollapsingIterator - with the one
// piece the encoder cannot execute (the sstable reader) replaced by a table
// stub that keeps its contract: a table hides the points it flagged obsolete
// exactly when the real sstable predicate
// (Reader.TryAddBlockPropertyFilterForHideObsoletePoints) says so for the
// options the stack hands to the table. One table holds two versions of a key
// (the older one flagged obsolete, as the writer flags a point shadowed inside
// its own table), a deeper table an even older one. Whatever the scan's
// sequence number, the table's format and the table's level, the scan must
// emit the newest version visible at its sequence number.
func VerifHarness_C45_HideObsoleteWiring() {
	cmp := base.DefaultComparer.Compare
	// the upper table: a#hi (kind symbolic), a#mid SET flagged obsolete; the deeper table: a#lo SET
	lo := base.SeqNum(sym.Range("seq-lo", 1, 6))
	mid := base.SeqNum(sym.Range("seq-mid", 1, 6))
	hi := base.SeqNum(sym.Range("seq-hi", 1, 6))
	sym.Assume(lo < mid && mid < hi)
	S := base.SeqNum(sym.Range("scan-seqnum", 1, 8))
	hiKind := hKSet
	if sym.Bool("newest-is-delete") {
		hiKind = hKDel
	}
	format := sstable.TableFormat(sym.Range("table-format", int(sstable.TableFormatPebblev1), int(sstable.TableFormatMax)))
	deeper := sym.Bool("older-version-in-deeper-level")

	key := []byte("a")
	upper := []base.InternalKV{
		{K: base.MakeInternalKey(key, hi, hiKind), V: base.MakeInPlaceValue([]byte{3})},
		{K: base.MakeInternalKey(key, mid, hKSet), V: base.MakeInPlaceValue([]byte{2})},
	}
	if hiKind == hKDel {
		upper[0].V = base.InternalValue{}
	}
	lower := []base.InternalKV{{K: base.MakeInternalKey(key, lo, hKSet), V: base.MakeInPlaceValue([]byte{1})}}

	mk := func(num base.TableNum, kvs []base.InternalKV) *manifest.TableMetadata {
		m := &manifest.TableMetadata{TableNum: num, Size: 1}
		m.ExtendPointKeyBounds(cmp, kvs[0].K.Clone(), kvs[len(kvs)-1].K.Clone())
		m.SeqNums.Low, m.SeqNums.High = kvs[len(kvs)-1].K.SeqNum(), kvs[0].K.SeqNum()
		m.LargestSeqNumAbsolute = m.SeqNums.High
		m.InitPhysicalBacking()
		return m
	}
	var files [7][]*manifest.TableMetadata
	upLevel := sym.Choose("upper-table-level", 5) // L0 (one sublevel) .. L4
	files[upLevel] = []*manifest.TableMetadata{mk(1, upper)}
	if deeper {
		files[6] = []*manifest.TableMetadata{mk(2, lower)}
	}
	v := manifest.NewVersionForTesting(base.DefaultComparer, manifest.NewL0Organizer(base.DefaultComparer, 0), files)

	newIters := func(ctx context.Context, file *manifest.TableMetadata, o *IterOptions, _ internalIterOpts, kinds iterKinds) (iterSet, error) {
		var set iterSet
		if kinds.Point() {
			kvs := lower
			if file.TableNum == 1 {
				kvs = upper
				// what file_cache.go's newPointIter asks the reader
				r := sstable.VerifReaderWithFormat(format)
				hide, _ := r.TryAddBlockPropertyFilterForHideObsoletePoints(o.snapshotForHideObsoletePoints, file.SeqNums.High, nil)
				if hide {
					kvs = upper[:1] // the flagged older version is not surfaced
					sym.Reach("table-hides-obsolete-points")
				}
			}
			it := &hSliceIter{kvs: kvs, i: -1}
			it.SetBounds(o.LowerBound, o.UpperBound)
			set.point = it
		}
		if kinds.RangeDeletion() {
			set.rangeDeletion = keyspan.NewIter(cmp, nil)
		}
		return set, nil
	}

	// the DB the scan belongs to: later sequence numbers may already be visible in it
	d := &DB{opts: &Options{Comparer: base.DefaultComparer, Merger: base.DefaultMerger}}
	d.mu.versions = &versionSet{}
	d.mu.versions.visibleSeqNum.Store(S + base.SeqNum(sym.Range("visible-beyond-scan", 0, 3)))
	si := &scanInternalIterator{
		ctx:      context.Background(),
		db:       d,
		comparer: base.DefaultComparer,
		merge:    base.DefaultMerger.Merge,
		version:  v,
		newIters: newIters,
		seqNum:   S,
	}
	var buf iterAlloc
	err := si.constructPointIter(block.CategoryUnknown, nil, &buf)
	sym.Assert(err == nil, "stack-constructed")
	if err != nil {
		return
	}

	var got []uint64
	steps := 0
	for kv := si.pointKeyIter.First(); kv != nil; kv = si.pointKeyIter.Next() {
		steps++
		sym.Assert(steps <= 4, "scan-terminates")
		got = append(got, uint64(kv.K.Trailer))
	}
	sym.Assert(si.pointKeyIter.Error() == nil, "no-error")

	// the newest version visible at S
	want, have := uint64(0), false
	switch {
	case hi < S:
		want, have = uint64(base.MakeTrailer(hi, hiKind)), true
	case mid < S:
		want, have = uint64(base.MakeTrailer(mid, hKSet)), true
	case lo < S && deeper:
		want, have = uint64(base.MakeTrailer(lo, hKSet)), true
	}
	if have {
		sym.Assert(len(got) == 1 && got[0] == want, "scan-emits-newest-visible-version")
	} else {
		sym.Assert(len(got) == 0, "nothing-visible-nothing-emitted")
	}
	sym.Reach("scanned")
}
