package pebble

import (
	"context"
	"sync/atomic"

	"github.com/cockroachdb/pebble/internal/base"
	"github.com/cockroachdb/pebble/internal/keyspan"
	"github.com/cockroachdb/pebble/internal/manifest"
	sym "github.com/cockroachdb/pebble/internal/verifsym"
	"github.com/cockroachdb/pebble/sstable"
)

// Table stubs: the sstable reader is outside the encoder's reach, so harnesses
// that run the code above it (getIter, the iterator constructors, levelIter)
// get tables that keep the reader's contract instead. A stub table holds the
// sorted point keys and fragmented range deletions of one harness level, its
// metadata carries the real bounds and sequence-number range, and it hides the
// points the writer would have flagged obsolete exactly when the real
// predicate (sstable.Reader.TryAddBlockPropertyFilterForHideObsoletePoints)
// says so for the options the code under test hands to it.

type hTable struct {
	meta  *manifest.TableMetadata
	kvs   []base.InternalKV
	obs   []bool // the writer's obsolete flag per point (see hObsoleteFlags)
	spans []keyspan.Span
}

type hTables struct {
	byNum  map[base.TableNum]*hTable
	format sstable.TableFormat
}

// hObsoleteFlags mirrors RawRowWriter.makeAddPointDecisionV3 (conditions C1 and
// C2; C3 and forceObsolete concern compactions into the lowest level and are
// drawn as one symbolic choice per table when a same-table range deletion
// covers the point): a point is flagged when the previous point of the table
// has the same user key and is itself flagged or is not a MERGE.
func hObsoleteFlags(kvs []base.InternalKV, spans []keyspan.Span, force bool) []bool {
	obs := make([]bool, len(kvs))
	for i := range kvs {
		if i > 0 && base.DefaultComparer.Equal(kvs[i-1].K.UserKey, kvs[i].K.UserKey) {
			obs[i] = sym.Or(obs[i-1], kvs[i-1].K.Kind() != hKMerge)
		}
		if force {
			for _, s := range spans {
				if s.Contains(base.DefaultComparer.Compare, kvs[i].K.UserKey) && s.LargestSeqNum() > kvs[i].K.SeqNum() {
					obs[i] = true
				}
			}
		}
	}
	return obs
}

// hMakeTable builds the stub table of one level's content (nil if the level is empty).
func hMakeTable(num base.TableNum, kvs []base.InternalKV, spans []keyspan.Span, force bool) *hTable {
	if len(kvs) == 0 && len(spans) == 0 {
		return nil
	}
	cmp := base.DefaultComparer.Compare
	m := &manifest.TableMetadata{TableNum: num, Size: 1}
	lo, hi := base.SeqNumMax, base.SeqNum(0)
	see := func(s base.SeqNum) {
		if s < lo {
			lo = s
		}
		if s > hi {
			hi = s
		}
	}
	if len(kvs) > 0 {
		m.ExtendPointKeyBounds(cmp, kvs[0].K.Clone(), kvs[len(kvs)-1].K.Clone())
		for i := range kvs {
			see(kvs[i].K.SeqNum())
		}
	}
	for _, s := range spans {
		m.ExtendPointKeyBounds(cmp, base.MakeInternalKey(append([]byte(nil), s.Start...), s.LargestSeqNum(), hKRDel),
			base.MakeRangeDeleteSentinelKey(append([]byte(nil), s.End...)))
		for _, k := range s.Keys {
			see(k.SeqNum())
		}
	}
	m.SeqNums.Low, m.SeqNums.High = lo, hi
	m.LargestSeqNumAbsolute = hi
	m.InitPhysicalBacking()
	return &hTable{meta: m, kvs: kvs, obs: hObsoleteFlags(kvs, spans, force), spans: spans}
}

// newIters is the tableNewIters of the stub tables.
func (ts *hTables) newIters(ctx context.Context, file *manifest.TableMetadata, o *IterOptions, _ internalIterOpts, kinds iterKinds) (iterSet, error) {
	t := ts.byNum[file.TableNum]
	var set iterSet
	if kinds.Point() {
		kvs := t.kvs
		var snap base.SeqNum
		if o != nil {
			snap = o.snapshotForHideObsoletePoints
		}
		// what file_cache.go's newPointIter asks the reader before it opens the point iterator
		hide, _ := sstable.VerifReaderWithFormat(ts.format).TryAddBlockPropertyFilterForHideObsoletePoints(snap, file.SeqNums.High, nil)
		if hide {
			kvs = nil
			for i := range t.kvs {
				if !t.obs[i] {
					kvs = append(kvs, t.kvs[i])
				}
			}
			sym.Reach("table-hides-obsolete-points")
		}
		it := &hSliceIter{kvs: kvs, i: -1}
		if o != nil {
			it.SetBounds(o.LowerBound, o.UpperBound)
		}
		set.point = it
	}
	if kinds.RangeDeletion() && len(t.spans) > 0 {
		set.rangeDeletion = keyspan.NewIter(base.DefaultComparer.Compare, t.spans)
	}
	return set, nil
}

// hContentOf returns the sorted point keys and fragmented range deletions of built levels.
func hContentOf(levels []mergingIterLevel) (kvs [][]base.InternalKV, spans [][]keyspan.Span) {
	for _, lv := range levels {
		kvs = append(kvs, lv.iter.(*hSliceIter).kvs)
		var ss []keyspan.Span
		if it := lv.rangeDelIter; it != nil {
			for s, _ := it.First(); s != nil; s, _ = it.Next() {
				ss = append(ss, s.Clone())
			}
		}
		spans = append(spans, ss)
	}
	return kvs, spans
}

// hVersionOf places the levels' tables into a version: layout picks, per harness level
// (newest first), the LSM level; several harness levels in L0 become L0 tables that the real
// L0 organizer arranges into sublevels.
func hVersionOf(levels []mergingIterLevel, layout []int) (*manifest.Version, *hTables) {
	L := len(levels)
	kvs, spans := hContentOf(levels)
	ts := &hTables{byNum: map[base.TableNum]*hTable{}}
	ts.format = sstable.TableFormat(sym.Range("table-format", int(sstable.TableFormatPebblev3), int(sstable.TableFormatPebblev5)))
	force := !hDBLean && sym.Bool("writer-flags-rangedel-covered-points")
	var files [7][]*manifest.TableMetadata
	for lv := L - 1; lv >= 0; lv-- { // oldest first: L0 tables are listed in seqnum order
		t := hMakeTable(base.TableNum(lv+1), kvs[lv], spans[lv], force)
		if t == nil {
			continue
		}
		ts.byNum[t.meta.TableNum] = t
		files[layout[lv]] = append(files[layout[lv]], t.meta)
	}
	v := manifest.NewVersionForTesting(base.DefaultComparer, manifest.NewL0Organizer(base.DefaultComparer, 0), files)
	return v, ts
}

var hLayouts = map[int][][]int{
	1: {{0}, {3}},
	2: {{0, 0}, {0, 1}, {2, 6}},
	3: {{0, 0, 0}, {0, 0, 3}, {0, 1, 2}},
}

// hUseDB is set by the *DB harnesses: iterators are built by the real DB.newIter over a
// version of stub tables instead of being wired by hand.
var hUseDB bool

// hDBLean fixes the layout (L0 over L1..), reads through the DB only and leaves range-deleted
// points unflagged: for harnesses whose subject is positioning rather than placement.
var hDBLean bool

// hDBOver is a DB value that carries just what the read path reads: options, the merge
// function, a read state over the version, the table opener and the visible sequence number.
func hDBOver(levels []mergingIterLevel, visible base.SeqNum) *DB {
	layouts := hLayouts[len(levels)]
	layout := layouts[1] // L0 over deeper levels
	if !hDBLean {
		layout = layouts[sym.Choose("layout", len(layouts))]
	}
	v, ts := hVersionOf(levels, layout)
	d := &DB{opts: &Options{Comparer: base.DefaultComparer, Merger: base.DefaultMerger}, merge: base.DefaultMerger.Merge}
	d.closed = new(atomic.Value)
	d.newIters = ts.newIters
	d.fileCache = &fileCacheHandle{}
	rs := &readState{db: d, current: v}
	rs.refcnt.Store(1)
	d.readState.val = rs
	d.mu.versions = &versionSet{}
	d.mu.versions.visibleSeqNum.Store(visible)
	return d
}

// hNewIteratorDB: DB.NewIter (or, on a symbolic choice, Snapshot.NewIter at the same sequence
// number with later sequence numbers already visible in the DB) through the real DB.newIter.
func hNewIteratorDB(levels []mergingIterLevel, readSeq base.SeqNum, opts *IterOptions) *Iterator {
	d := hDBOver(levels, readSeq)
	var o newIterOpts
	if !hDBLean && sym.Bool("through-snapshot") {
		o.snapshot.seqNum = readSeq
		d.mu.versions.visibleSeqNum.Store(readSeq + 5)
	}
	return d.newIter(context.Background(), nil, o, opts)
}
