package pebble

import (
	"github.com/cockroachdb/pebble/internal/base"
	sym "github.com/cockroachdb/pebble/internal/verifsym"
)

// hIterOps: iterator positioning. The visible state (a full, unbounded forward
// scan, itself compared with the sequential model) is a list; every operation's
// prescribed result is a position in that list, computed as a term: [a, b) is
// the window of the list inside [lower, upper), idx the logical position
// (a-1 = exhausted backwards, b = exhausted forwards), and a limit operation
// that pauses leaves the iterator in the gap before/after the key it refused.
func hIterOps(N, L, nOps int, kinds []base.InternalKeyKind, bounded, limits, setBoundsOp bool) {
	n := 1 + sym.Choose("n", N)
	h := hHistory(n, kinds)
	hPlace(h, L)
	if hUseLevelIter {
		hNoRangeDelAtBottom(h, L)
	}
	readSeq := base.SeqNum(sym.Range("readSeq", 1, n+1))

	useDB := hUseDB
	hUseDB = false // the reference scan is wired by hand
	ref := hNewIterator(hBuildLevels(h, L), readSeq, nil)
	hUseDB = useDB
	var full []hOut
	for valid := ref.First(); valid; valid = ref.Next() {
		full = append(full, hCur(ref))
		sym.Assert(len(full) <= 3, "scan-terminates")
	}
	hCheckScan(full, h, readSeq, "scan")
	cnt := func(k byte) int64 { // number of visible keys < k
		var c int64
		for _, e := range full {
			c += sym.Ite(e.key < k, int64(1), int64(0))
		}
		return c
	}
	keyAt := func(j int64) byte { // key at index j (0 when out of range)
		var k byte
		for i, e := range full {
			k = sym.Ite(j == int64(i), e.key, k)
		}
		return k
	}
	max := func(x, y int64) int64 { return sym.Ite(x > y, x, y) }
	min := func(x, y int64) int64 { return sym.Ite(x < y, x, y) }

	var opts IterOptions
	a, b := int64(0), int64(len(full))
	lo, hi := byte(0), byte(255)
	setBounds := func() (lower, upper []byte) {
		lo, hi = sym.U8("lower"), sym.U8("upper")
		sym.Assume(sym.And(sym.And(lo >= hKeyLo, lo < hi), hi <= hKeyHi+1))
		a, b = cnt(lo), cnt(hi)
		return []byte{lo}, []byte{hi}
	}
	if bounded {
		opts.LowerBound, opts.UpperBound = setBounds()
	}
	levels := hBuildLevels(h, L)
	for i := range levels {
		levels[i].iter.SetBounds(opts.LowerBound, opts.UpperBound)
	}
	it := hNewIterator(levels, readSeq, &opts)

	const (
		opFirst = iota
		opLast
		opSeekGE
		opSeekLT
		opSeekGELimit
		opSeekLTLimit
		opNext
		opPrev
		opNextLimit
		opPrevLimit
		opSetBounds
		opNextPrefix
	)
	seekKey := func() byte {
		k := sym.U8("seek")
		sym.Assume(sym.And(k >= hKeyLo, k <= hKeyHi+1))
		return k
	}
	limitKey := func() byte {
		lim := sym.U8("limit")
		sym.Assume(sym.And(lim >= hKeyLo, lim <= hKeyHi+1))
		return lim
	}
	idx := int64(0)
	positioned, pausedFwd, pausedRev := false, false, false
	atKey := false // the previous operation left the iterator on a key
	for step := 0; step < nOps; step++ {
		var st IterValidityState
		ops := []int{opFirst, opLast, opSeekGE, opSeekLT}
		if limits {
			ops = append(ops, opSeekGELimit, opSeekLTLimit)
		}
		if positioned && !setBoundsOp {
			ops = append(ops, opNext, opPrev)
			if limits {
				ops = append(ops, opNextLimit, opPrevLimit)
			}
			if hOpsNextPrefix && atKey {
				ops = append(ops, opNextPrefix)
			}
		}
		op := opSetBounds
		if !(setBoundsOp && step == 1) { // with setBoundsOp the second operation changes the bounds
			op = ops[sym.Choose("op", len(ops))]
		}
		mayPause := false // limits are best effort: the iterator may pause only if no visible key lies before the limit
		switch op {
		case opFirst:
			st = hState(it.First())
			idx = a
		case opLast:
			st = hState(it.Last())
			idx = b - 1
		case opSeekGE:
			k := seekKey()
			st = hState(it.SeekGE([]byte{k}))
			idx = min(max(a, cnt(k)), b)
		case opSeekLT:
			k := seekKey()
			st = hState(it.SeekLT([]byte{k}))
			idx = max(min(b, cnt(k))-1, a-1)
		case opSeekGELimit:
			k, lim := seekKey(), limitKey()
			st = it.SeekGEWithLimit([]byte{k}, []byte{lim})
			j := min(max(a, cnt(k)), b)
			mayPause = sym.Or(j >= b, keyAt(j) >= lim)
			idx = j
			if st == IterAtLimit {
				idx = j - 1
			}
		case opSeekLTLimit:
			k, lim := seekKey(), limitKey()
			st = it.SeekLTWithLimit([]byte{k}, []byte{lim})
			j := max(min(b, cnt(k))-1, a-1)
			mayPause = sym.Or(j < a, keyAt(j) < lim)
			idx = j
			if st == IterAtLimit {
				idx = j + 1
			}
		case opNext:
			st = hState(it.Next())
			if !pausedRev {
				idx = min(idx+1, b)
			}
		case opNextPrefix:
			// every key of the alphabet is its own prefix under the default comparer: from a key,
			// NextPrefix lands on the next visible key
			st = hState(it.NextPrefix())
			idx = min(idx+1, b)
		case opPrev:
			st = hState(it.Prev())
			if !pausedFwd {
				idx = max(idx-1, a-1)
			}
		case opNextLimit:
			lim := limitKey()
			st = it.NextWithLimit([]byte{lim})
			j := idx
			if !pausedRev {
				j = min(idx+1, b)
			}
			mayPause = sym.Or(j >= b, keyAt(j) >= lim)
			idx = j
			if st == IterAtLimit {
				idx = j - 1
			}
		case opPrevLimit:
			lim := limitKey()
			st = it.PrevWithLimit([]byte{lim})
			j := idx
			if !pausedFwd {
				j = max(idx-1, a-1)
			}
			mayPause = sym.Or(j < a, keyAt(j) < lim)
			idx = j
			if st == IterAtLimit {
				idx = j + 1
			}
		case opSetBounds:
			lower, upper := setBounds()
			it.SetBounds(lower, upper)
			positioned, pausedFwd, pausedRev = false, false, false
			continue
		}
		positioned = true
		atKey = st == IterValid
		if st == IterAtLimit {
			sym.Assert(mayPause, "pauses-only-at-or-beyond-the-limit")
		}
		pausedFwd = st == IterAtLimit && (op == opSeekGELimit || op == opNextLimit)
		pausedRev = st == IterAtLimit && (op == opSeekLTLimit || op == opPrevLimit)
		if st != IterAtLimit {
			sym.Assert((st == IterValid) == sym.And(idx >= a, idx < b), "valid-iff-model-position-in-window")
		}
		sym.Assert(it.Valid() == (st == IterValid), "valid-agrees-with-state")
		if st == IterValid {
			cur := hCur(it)
			sym.Assert(sym.And(cur.key >= lo, cur.key < hi), "key-within-bounds")
			for i, e := range full {
				sym.Assert(sym.Implies(idx == int64(i), sym.And(cur.key == e.key, sym.And(cur.packed == e.packed, cur.n == e.n))), "position-matches-model")
			}
		}
	}
	sym.Assert(it.Error() == nil, "no-error")
	sym.Reach("ops")
}

func hState(valid bool) IterValidityState {
	if valid {
		return IterValid
	}
	return IterExhausted
}

var hSetDelRDel = []base.InternalKeyKind{hKSet, hKDel, hKRDel}
var hSetRDel = []base.InternalKeyKind{hKSet, hKRDel}

func VerifHarness_C02_Ops() { hIterOps(2, 2, 2, hSetDelRDel, false, false, false) }

func VerifHarness_C02_Bounds() { hIterOps(2, 2, 2, hSetRDel, true, false, false) }

func VerifHarness_C02_SetBounds() { hIterOps(2, 2, 3, hSetRDel, false, false, true) }

func VerifHarness_C02_Limits() { hIterOps(2, 2, 2, hSetDelRDel, false, true, false) }

func VerifHarness_C02_Ops3_Deep()    { hIterOps(2, 2, 3, hSetDelRDel, false, false, false) }
func VerifHarness_C02_Limits3_Deep() { hIterOps(2, 2, 3, hSetRDel, false, true, false) }

// bounds and SetBounds with the real levelIter as the bottom level (bounds propagation)
func VerifHarness_C02_BoundsLevelIter_Thorough() {
	hUseLevelIter = true
	hIterOps(2, 2, 2, hSetRDel, true, false, false)
}

func VerifHarness_C02_SetBoundsLevelIter_Thorough() {
	hUseLevelIter = true
	hIterOps(2, 2, 3, hSetRDel, false, false, true)
}

// the same oracles with the iterator built by the real DB.newIter over a version of stub
// tables (options and bounds travel through processBounds, constructPointIter and one real
// levelIter per level)
func VerifHarness_C02_OpsDB_Thorough() {
	hWithLeanDB(func() { hIterOps(2, 2, 2, hSetDelRDel, false, false, false) })
}

func VerifHarness_C02_BoundsDB() {
	hWithLeanDB(func() { hIterOps(2, 2, 1, hSetRDel, true, false, false) })
}

// NextPrefix after every kind of position an operation can leave the iterator in, including
// the one after a MERGE was resolved (the internal iterator already stands on the next key)
func VerifHarness_C02_NextPrefix() {
	hOpsNextPrefix = true
	hIterOps(2, 2, 2, []base.InternalKeyKind{hKSet, hKMerge, hKDel}, false, false, false)
}

func VerifHarness_C02_NextPrefix3_Thorough() {
	hOpsNextPrefix = true
	hIterOps(2, 2, 3, []base.InternalKeyKind{hKSet, hKMerge, hKDel}, false, false, false)
}
