package pebble

import (
	"github.com/cockroachdb/pebble/batchrepr"
	"github.com/cockroachdb/pebble/internal/base"
	sym "github.com/cockroachdb/pebble/internal/verifsym"
)

// VerifHarness_C31_KeyLengthFraming: the Batch encoders of the root package
// (Set, Merge, Delete, SingleDelete, DeleteSized, LogData and their deferred
// forms, each with its own inlined varint writer) frame keys and values whose
// lengths sit on the varint boundaries so that the batchrepr reader returns
// exactly the operations written: two operations, the first with a key (and
// value) length chosen around 2^7 and 2^14, symbolic content, then a marker
// operation that must still be found where the first one ends.
func VerifHarness_C31_KeyLengthFraming() {
	lens := []int{0, 1, 126, 127, 128, 129, 255, 256, 16383, 16384, 16385}
	kl := lens[sym.Choose("key-length", len(lens))]
	vl := []int{0, 1, 127, 128, 129, 16384}[sym.Choose("value-length", 6)]
	key := make([]byte, kl)
	val := make([]byte, vl)
	if kl > 0 {
		key[0], key[kl-1] = sym.U8("key-first"), sym.U8("key-last")
	}
	if vl > 0 {
		val[0], val[vl-1] = sym.U8("value-first"), sym.U8("value-last")
	}
	b := newBatch(nil)
	op := sym.Choose("op", 6)
	var err error
	wantKind, hasValue := base.InternalKeyKindSet, false
	switch op {
	case 0:
		err, wantKind, hasValue = b.Set(key, val, nil), base.InternalKeyKindSet, true
	case 1:
		err, wantKind, hasValue = b.Merge(key, val, nil), base.InternalKeyKindMerge, true
	case 2:
		err, wantKind = b.Delete(key, nil), base.InternalKeyKindDelete
	case 3:
		err, wantKind = b.SingleDelete(key, nil), base.InternalKeyKindSingleDelete
	case 4:
		err, wantKind = b.LogData(key, nil), base.InternalKeyKindLogData
	case 5:
		err, wantKind = b.DeleteSized(key, uint32(vl), nil), base.InternalKeyKindDeleteSized
	}
	sym.Assert(err == nil, "op-accepted")
	marker := []byte{0xA5}
	sym.Assert(b.Set(marker, marker, nil) == nil, "marker-accepted")

	r := batchrepr.Read(b.Repr())
	kind, k, v, ok, rerr := r.Next()
	sym.Assert(ok && rerr == nil, "first-record-decodes")
	if !ok || rerr != nil {
		return
	}
	sym.Assert(kind == wantKind, "first-record-kind")
	sym.Assert(len(k) == kl, "key-length-round-trips")
	if len(k) == kl && kl > 0 {
		sym.Assert(k[0] == key[0] && k[kl-1] == key[kl-1], "key-bytes-round-trip")
	}
	if hasValue {
		sym.Assert(len(v) == vl, "value-length-round-trips")
		if len(v) == vl && vl > 0 {
			sym.Assert(v[0] == val[0] && v[vl-1] == val[vl-1], "value-bytes-round-trip")
		}
	}
	kind, k, v, ok, rerr = r.Next()
	sym.Assert(ok && rerr == nil, "second-record-decodes")
	if ok && rerr == nil {
		sym.Assert(kind == base.InternalKeyKindSet && len(k) == 1 && k[0] == 0xA5 && len(v) == 1 && v[0] == 0xA5, "second-record-is-the-marker")
	}
	_, _, _, ok, rerr = r.Next()
	sym.Assert(!ok && rerr == nil, "nothing-follows")
	sym.Reach("framed")
}
