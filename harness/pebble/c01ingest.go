package pebble

import (
	"github.com/cockroachdb/pebble/internal/base"
	"github.com/cockroachdb/pebble/internal/manifest"
	sym "github.com/cockroachdb/pebble/internal/verifsym"
)

// VerifHarness_C01_IngestedFlushableOverlap: an ingestion whose tables overlap
// a flushable still in the queue must be sequenced above it (it is then queued
// as a flushable itself instead of being placed into the LSM underneath).
// That decision is ingestedFlushable.anyFileOverlaps for queued ingested
// tables: for one or two sorted, disjoint tables with symbolic bounds (largest
// key inclusive or an exclusive sentinel), an optional excise span and
// symbolic query bounds (end inclusive or exclusive), it reports an overlap
// exactly when a user key exists that lies in both.
func VerifHarness_C01_IngestedFlushableOverlap() {
	cmp := base.DefaultComparer.Compare
	nf := 1 + sym.Choose("tables", 2)
	var files []*manifest.TableMetadata
	type iv struct {
		lo, hi byte
		excl   bool
	}
	var ivs []iv
	prevHi, prevExcl := byte(0), true
	for i := 0; i < nf; i++ {
		lo, hi, excl := sym.U8("smallest"), sym.U8("largest"), sym.Bool("largest-is-exclusive-sentinel")
		sym.Assume(sym.And(lo >= 'a', hi <= 'h'))
		sym.Assume(sym.Or(lo < hi, sym.And(lo == hi, !excl)))
		if i > 0 { // sorted and disjoint
			sym.Assume(sym.Or(prevHi < lo, sym.And(prevHi == lo, prevExcl)))
		}
		prevHi, prevExcl = hi, excl
		m := &manifest.TableMetadata{TableNum: base.TableNum(i + 1), Size: 1}
		largest := base.MakeInternalKey([]byte{hi}, 1, hKSet)
		if excl {
			largest = base.MakeRangeDeleteSentinelKey([]byte{hi})
		}
		m.ExtendPointKeyBounds(cmp, base.MakeInternalKey([]byte{lo}, 1, hKSet), largest)
		m.InitPhysicalBacking()
		files = append(files, m)
		ivs = append(ivs, iv{lo, hi, excl})
	}
	s := &ingestedFlushable{files: files, comparer: base.DefaultComparer}
	if sym.Bool("with-excise-span") {
		lo, hi := sym.U8("excise-start"), sym.U8("excise-end")
		sym.Assume(sym.And(sym.And(lo >= 'a', lo < hi), hi <= 'h'))
		s.exciseSpan = KeyRange{Start: []byte{lo}, End: []byte{hi}}
		ivs = append(ivs, iv{lo, hi, true})
	}
	qlo, qhi, qexcl := sym.U8("query-start"), sym.U8("query-end"), sym.Bool("query-end-exclusive")
	sym.Assume(sym.And(qlo >= 'a', qhi <= 'h'))
	sym.Assume(sym.Or(qlo < qhi, sym.And(qlo == qhi, !qexcl)))
	end := base.UserKeyInclusive([]byte{qhi})
	if qexcl {
		end = base.UserKeyExclusive([]byte{qhi})
	}
	got := s.anyFileOverlaps(base.UserKeyBounds{Start: []byte{qlo}, End: end})

	// two intervals of byte strings with single-byte end points share a key iff each starts
	// at or before the other's end (strictly before an exclusive end)
	want := false
	for _, f := range ivs {
		startsBeforeQueryEnds := sym.Or(f.lo < qhi, sym.And(f.lo == qhi, !qexcl))
		queryStartsBeforeEnds := sym.Or(qlo < f.hi, sym.And(qlo == f.hi, !f.excl))
		want = sym.Or(want, sym.And(startsBeforeQueryEnds, queryStartsBeforeEnds))
	}
	sym.Assert(got == want, "overlap-iff-a-common-key-exists")
	sym.Reach("decided")
}
