package pebble

import (
	"context"

	"github.com/cockroachdb/pebble/internal/base"
	"github.com/cockroachdb/pebble/internal/keyspan"
	"github.com/cockroachdb/pebble/internal/keyspan/keyspanimpl"
	sym "github.com/cockroachdb/pebble/internal/verifsym"
)

type hEmittedSpan struct {
	start, end byte
	trailers   []uint64
}

// hInternalScan: the point-collapsing internal scan (the point-key half of
// ScanInternal) over the merged levels emits internal keys and range
// deletions which, replayed into an empty store, give the same visible state
// as the source at the scan's sequence number - at every key of the span.
func hInternalScan(N, L int, kinds []base.InternalKeyKind, bounded bool) {
	hInternalScanVia(N, L, kinds, bounded, false)
}

// With viaDB the scan is the real DB.ScanInternal / Snapshot-style scan (newInternalIter,
// finishInitializingInternalIter, constructPointIter and constructRangeKeyIter, scanInternalImpl
// and its visitor callbacks) over a version of stub tables (tables.go); otherwise the
// point-collapsing iterator is wired by hand over slice levels.
func hInternalScanVia(N, L int, kinds []base.InternalKeyKind, bounded, viaDB bool) {
	n := 1 + sym.Choose("n", N)
	h := hHistory(n, kinds)
	hPlace(h, L)
	seqNum := base.SeqNum(sym.Range("seqNum", 1, n+1))
	lower, upper, lo, hi := hBoundsFor(bounded)

	var points []hIKey
	var spans []hEmittedSpan
	if viaDB {
		d := hDBOver(hBuildLevels(h, L), seqNum)
		sopts := snapshotIterOpts{}
		if sym.Bool("through-snapshot") {
			sopts.seqNum = seqNum
			d.mu.versions.visibleSeqNum.Store(base.SeqNum(n + 1))
		}
		if lower == nil { // ScanInternal seeks to the lower bound
			lower, upper = []byte{0}, []byte{255}
		}
		opts := ScanInternalOptions{
			IterOptions: IterOptions{KeyTypes: IterKeyTypePointsAndRanges, LowerBound: lower, UpperBound: upper},
			VisitPointKey: func(key *InternalKey, value LazyValue, _ IteratorLevel) error {
				sym.Assert(len(key.UserKey) == 1, "ikey-length")
				points = append(points, hIKey{key.UserKey[0], uint64(key.Trailer)})
				sym.Assert(len(points) <= 2*len(h)+2, "scan-terminates")
				return nil
			},
			VisitRangeDel: func(start, end []byte, seq base.SeqNum) error {
				spans = append(spans, hEmittedSpan{start: start[0], end: end[0], trailers: []uint64{uint64(base.MakeTrailer(seq, hKRDel))}})
				sym.Assert(len(spans) <= 2*len(h)+2, "scan-terminates")
				return nil
			},
		}
		it, err := d.newInternalIter(context.Background(), sopts, &opts)
		sym.Assert(err == nil, "no-error")
		if err != nil {
			return
		}
		sym.Assert(scanInternalImpl(context.Background(), it, &opts) == nil, "no-error")
		sym.Assert(it.Close() == nil, "close")
		sym.Assert(d.readState.val.refcnt.Load() == 1, "read-state-references-released")
	} else {
		mi := hNewMerging(h, L, seqNum, lower, upper)
		var rdIters []keyspan.FragmentIterator
		for _, lv := range hBuildLevels(h, L) {
			rdIters = append(rdIters, lv.rangeDelIter)
		}
		var rangeDelMiter keyspanimpl.MergingIter
		rangeDelMiter.Init(base.DefaultComparer, keyspan.VisibleTransform(seqNum), new(keyspanimpl.MergingBuffers), rdIters...)
		pc := &pointCollapsingIterator{comparer: base.DefaultComparer, merge: base.DefaultMerger.Merge, seqNum: seqNum}
		pc.iter.Init(base.DefaultComparer, mi, &rangeDelMiter, keyspan.InterleavingIterOpts{LowerBound: lower, UpperBound: upper})

		steps := 0
		for kv := pc.First(); kv != nil; kv = pc.Next() {
			steps++
			sym.Assert(steps <= 2*len(h)+2, "scan-terminates")
			if kv.Kind() == hKRDel {
				sp := pc.Span()
				sym.Assert(sp != nil, "rangedel-has-span")
				if sp == nil {
					return
				}
				e := hEmittedSpan{start: sp.Start[0], end: sp.End[0]}
				for _, k := range sp.Keys {
					e.trailers = append(e.trailers, uint64(k.Trailer))
				}
				spans = append(spans, e)
				continue
			}
			points = append(points, hIK(kv))
		}
		sym.Assert(pc.Error() == nil, "no-error")
	}

	// every emitted item is one of the source's writes
	for _, o := range points {
		is := false
		for _, w := range h {
			is = sym.Or(is, sym.And(w.kind != hKRDel, sym.And(o.key == w.key, o.trailer == uint64(base.MakeTrailer(w.seq, w.kind)))))
		}
		sym.Assert(is, "emitted-point-is-a-write")
	}
	// replay: the emitted subset of the writes, applied in commit order, read at the latest state
	for k := hKeyLo; k <= hKeyHi; k++ {
		var st hModelVal
		for _, w := range h {
			wt := uint64(base.MakeTrailer(w.seq, w.kind))
			emittedPoint := false
			for _, o := range points {
				emittedPoint = sym.Or(emittedPoint, sym.And(o.key == w.key, o.trailer == wt))
			}
			coveredByEmittedSpan := false
			for _, sp := range spans {
				for _, t := range sp.trailers {
					coveredByEmittedSpan = sym.Or(coveredByEmittedSpan, sym.And(t == wt, sym.And(sp.start <= k, k < sp.end)))
				}
			}
			onKey := w.key == k
			isSet := sym.And(emittedPoint, sym.And(sym.Or(w.kind == hKSet, w.kind == hKSetDel), onKey))
			isDel := sym.Or(sym.And(emittedPoint, sym.And(hIsPointTomb(w.kind), onKey)), sym.And(w.kind == hKRDel, coveredByEmittedSpan))
			v := uint64(w.val)
			st = hModelVal{
				sym.Ite(isSet, true, sym.Ite(isDel, false, st.present)),
				sym.Ite(isSet, v, sym.Ite(isDel, uint64(0), st.packed)),
				sym.Ite(isSet, uint64(1), sym.Ite(isDel, uint64(0), st.n)),
			}
		}
		want := hModelGet(h, k, seqNum)
		inSpan := sym.And(k >= lo, k < hi)
		sym.Assert(sym.Implies(inSpan, st.present == want.present), "replayed-presence")
		sym.Assert(sym.Implies(sym.And(inSpan, want.present), sym.And(st.packed == want.packed, st.n == want.n)), "replayed-value")
	}
	sym.Reach("scanned")
}

var hScanKinds = []base.InternalKeyKind{hKSet, hKDel, hKDSized, hKRDel, hKSetDel}

func VerifHarness_C45_InternalScan() { hInternalScan(3, 2, hScanKinds, false) }

func VerifHarness_C45_InternalScanBounded() { hInternalScan(2, 2, hScanKinds, true) }

func VerifHarness_C45_InternalScan_Deep() { hInternalScan(4, 3, hScanKinds, true) }

// the real DB.ScanInternal front end and visitor loop over stub tables
func VerifHarness_C45_ScanInternalDB() { hInternalScanVia(2, 2, hScanKinds, false, true) }

func VerifHarness_C45_ScanInternalDBBounded_Thorough() {
	hInternalScanVia(2, 2, hScanKinds, true, true)
}

func VerifHarness_C45_ScanInternalDB3_Thorough() {
	hDBLean = true
	hInternalScanVia(3, 2, hScanKinds, false, true)
}
