package pebble

import (
	"bytes"

	"github.com/cockroachdb/pebble/internal/base"
	"github.com/cockroachdb/pebble/internal/keyspan"
	sym "github.com/cockroachdb/pebble/internal/verifsym"
)

// A small suffixed-key comparer for the masking rule (which is parametric in
// the comparer): a key is one prefix byte plus an optional one-byte suffix;
// suffixes order by descending byte value (as MVCC timestamps do: newer first)
// and a key without suffix sorts before its suffixed versions.
func hSuffixCmp(a, b []byte) int { return bytes.Compare(b, a) }

var hSuffixComparer = &base.Comparer{
	Name:                 "verif.suffix",
	Split:                func(k []byte) int { return 1 },
	ComparePointSuffixes: hSuffixCmp,
	CompareRangeSuffixes: hSuffixCmp,
	Compare: func(a, b []byte) int {
		if c := bytes.Compare(a[:1], b[:1]); c != 0 {
			return c
		}
		return hSuffixCmp(a[1:], b[1:])
	},
	Equal: func(a, b []byte) bool { return bytes.Equal(a, b) },
}

type hMaskFilter struct {
	suffix []byte
	calls  int
}

func (f *hMaskFilter) Name() string                                        { return "verif.mask" }
func (f *hMaskFilter) Intersects(prop []byte) (bool, error)                { return false, nil }
func (f *hMaskFilter) SyntheticSuffixIntersects(p, s []byte) (bool, error) { return false, nil }
func (f *hMaskFilter) SetSuffix(suffix []byte) error {
	f.suffix = append([]byte(nil), suffix...)
	f.calls++
	return nil
}

func hMaskSpan(tag string, maxKeys int) (keyspan.Span, []bool, []byte) {
	start, end := sym.U8(tag+"-start"), sym.U8(tag+"-end")
	sym.Assume(start < end)
	s := keyspan.Span{Start: []byte{start}, End: []byte{end}}
	nk := 1 + sym.Choose(tag+"-nkeys", maxKeys)
	has := make([]bool, nk)
	sfx := make([]byte, nk)
	for j := 0; j < nk; j++ {
		k := keyspan.Key{Trailer: base.MakeTrailer(base.SeqNum(10-j), base.InternalKeyKindRangeKeySet)}
		has[j] = sym.Choose(tag+"-has-suffix", 2) == 1
		sfx[j] = sym.U8(tag + "-suffix")
		if has[j] {
			k.Suffix = []byte{sfx[j]}
		}
		s.Keys = append(s.Keys, k)
	}
	return s, has, sfx
}

// VerifHarness_C09_MaskRule: with masking suffix s, a point with suffix p under
// a span is skipped iff some range key of the span has a suffix r with
// s <= r < p in suffix order; a point without suffix is never skipped; the
// block-property filter is handed exactly the active (tightest) mask suffix;
// the state of an earlier span never leaks into the next one; without an
// active mask no block is ever excluded.
func VerifHarness_C09_MaskRule() {
	filter := &hMaskFilter{}
	parent := &Iterator{rangeKey: &iteratorRangeKeyState{}}
	threshold := sym.U8("mask-suffix")
	masking := sym.Choose("masking-enabled", 2) == 1
	if masking {
		parent.opts.RangeKeyMasking.Suffix = []byte{threshold}
		parent.opts.RangeKeyMasking.Filter = func() BlockPropertyFilterMask { return filter }
	}
	var m rangeKeyMasking
	m.init(parent, hSuffixComparer)

	// an earlier span first (its mask must not survive), possibly followed by leaving all spans
	if sym.Choose("earlier-span", 2) == 1 {
		prev, _, _ := hMaskSpan("prev", 2)
		m.SpanChanged(&prev)
		if sym.Choose("gap", 2) == 1 {
			m.SpanChanged(nil)
			sym.Assert(!m.SkipPoint([]byte{'k', sym.U8("gap-point-suffix")}), "no-span-no-skip")
			ok, err := m.Intersects(nil)
			sym.Assert(ok && err == nil, "no-mask-no-block-excluded")
		}
	}
	span, has, sfx := hMaskSpan("span", 3)
	m.SpanChanged(&span)

	// suffix order: x <= y  iff  byte(x) >= byte(y)
	active, tight := false, byte(0)
	for j := range has {
		if has[j] {
			ok := sfx[j] <= threshold // s <= r
			tight = sym.Ite(sym.And(ok, sym.Or(!active, sfx[j] > tight)), sfx[j], tight)
			active = sym.Or(active, ok)
		}
	}
	active = sym.And(active, masking)

	p := sym.U8("point-suffix")
	pointHasSuffix := sym.Choose("point-has-suffix", 2) == 1
	point := []byte{sym.U8("point-prefix")}
	if pointHasSuffix {
		point = append(point, p)
	}
	want := false
	if pointHasSuffix && masking {
		for j := range has {
			if has[j] {
				want = sym.Or(want, sym.And(sfx[j] <= threshold, sfx[j] > p)) // s <= r < p
			}
		}
	}
	sym.Assert(m.SkipPoint(point) == want, "skipped-iff-rule")

	sym.Assert((m.maskSpan != nil) == active, "mask-active-iff-some-range-key-at-or-after-the-threshold")
	if m.maskSpan == nil {
		ok, err := m.Intersects(nil)
		sym.Assert(ok && err == nil, "no-mask-no-block-excluded")
		ok, err = m.SyntheticSuffixIntersects(nil, nil)
		sym.Assert(ok && err == nil, "no-mask-no-block-excluded")
	} else {
		sym.Assert(filter.calls > 0 && len(filter.suffix) == 1 && filter.suffix[0] == tight, "filter-gets-the-active-mask-suffix")
		probe := sym.U8("bound-probe")
		sym.Assert(m.KeyIsWithinLowerBound([]byte{probe}) == (span.Start[0] <= probe), "block-lower-bound-inside-mask-span")
		sym.Assert(m.KeyIsWithinUpperBound([]byte{probe}) == (probe < span.End[0]), "block-upper-bound-inside-mask-span")
	}
	sym.Reach("masked")
}
