package pebble

import (
	"bytes"
	"context"

	"github.com/cockroachdb/pebble/internal/base"
	"github.com/cockroachdb/pebble/internal/keyspan"
	"github.com/cockroachdb/pebble/internal/manifest"
	"github.com/cockroachdb/pebble/internal/treesteps"
	sym "github.com/cockroachdb/pebble/internal/verifsym"
)

// Shared construction for the read-path harnesses (C01, C02, C03, C33, C45): a
// commit-ordered history of writes, placed into LSM levels in a way the level
// invariant allows, is read through the real mergingIter / Iterator and
// compared with a sequential model that is computed as terms (no branch of the
// model depends on symbolic data).

const (
	hKSet    = base.InternalKeyKindSet
	hKDel    = base.InternalKeyKindDelete
	hKMerge  = base.InternalKeyKindMerge
	hKSDel   = base.InternalKeyKindSingleDelete
	hKDSized = base.InternalKeyKindDeleteSized
	hKRDel   = base.InternalKeyKindRangeDelete
	hKSetDel = base.InternalKeyKindSetWithDelete // what compactions write for SET/MERGE over a dropped tombstone; reads as SET
)

const hKeyLo, hKeyHi = byte('a'), byte('c') // the user-key alphabet

// hKeyPrefix is prepended to every user key (the model works on the last byte). It is empty
// except where a harness wants keys that agree in their first 8 bytes (abbreviated keys).
var hKeyPrefix []byte

// hOpsNextPrefix adds NextPrefix (from a key) to the operations of hIterOps (c02.go).
var hOpsNextPrefix bool

// Native replay runs all cases in one process: reset the harness knobs before each (the engine
// starts every path with freshly initialised package variables and does not run init).
func init() {
	sym.OnCase(func() {
		hKeyPrefix = nil
		hUseDB, hDBLean, hUseLevelIter, hUseMemtable = false, false, false, false
		hLevelIterCut = -1
		hOpsNextPrefix = false
	})
}

func hKeyBytes(k byte) []byte { return append(append([]byte(nil), hKeyPrefix...), k) }

type hWrite struct {
	kind     base.InternalKeyKind // symbolic
	key, end byte                 // symbolic; end only for RANGEDEL: [key, end)
	val      byte
	seq      base.SeqNum // commit order
	level    int
}

func hKindIn(k base.InternalKeyKind, allowed []base.InternalKeyKind) bool {
	ok := false
	for _, a := range allowed {
		ok = sym.Or(ok, k == a)
	}
	return ok
}

func hIsPointTomb(k base.InternalKeyKind) bool {
	return sym.Or(sym.Or(k == hKDel, k == hKSDel), k == hKDSized)
}

// hHistory draws n writes in commit order (seqnum = position + 1).
func hHistory(n int, kinds []base.InternalKeyKind) []hWrite {
	var h []hWrite
	for i := 0; i < n; i++ {
		w := hWrite{kind: base.InternalKeyKind(sym.U8("kind")), key: sym.U8("key"), end: sym.U8("end"), val: sym.U8("val"), seq: base.SeqNum(i + 1)}
		sym.Assume(hKindIn(w.kind, kinds))
		sym.Assume(sym.And(w.key >= hKeyLo, w.key <= hKeyHi))
		sym.Assume(sym.And(w.end > w.key, w.end <= hKeyHi+1))
		h = append(h, w)
	}
	return h
}

// hPlace assigns levels by two sequence-number thresholds (newer data in
// shallower levels - one way of satisfying the level invariant for every key).
func hPlace(h []hWrite, L int) {
	n := len(h)
	c1 := base.SeqNum(sym.Choose("c1", n+1)) // seq > c1 -> level 0
	c2 := c1
	if L > 2 {
		c2 = base.SeqNum(sym.Choose("c2", int(c1)+1)) // c2 < seq <= c1 -> level 1, else level 2
	}
	for i := range h {
		switch {
		case h[i].seq > c1:
			h[i].level = 0
		case h[i].seq > c2:
			h[i].level = 1
		default:
			h[i].level = L - 1
		}
	}
}

// hModelVal is the sequential model's value for one key: visible or not, and
// the value bytes (oldest merge operand in the low byte).
type hModelVal struct {
	present   bool
	packed, n uint64
}

// hModelGet applies the history in commit order.
func hModelGet(h []hWrite, k byte, readSeq base.SeqNum) hModelVal {
	var st hModelVal
	for _, w := range h {
		vis := w.seq < readSeq
		onKey := w.key == k
		isSet := sym.And(sym.Or(w.kind == hKSet, w.kind == hKSetDel), onKey)
		isMerge := sym.And(w.kind == hKMerge, onKey)
		isDel := sym.Or(sym.And(hIsPointTomb(w.kind), onKey), sym.And(w.kind == hKRDel, sym.And(w.key <= k, k < w.end)))
		v := uint64(w.val)
		np := sym.Ite(isDel, false, sym.Or(sym.Or(isSet, isMerge), st.present))
		npacked := sym.Ite(isSet, v, sym.Ite(isMerge, st.packed|v<<(8*st.n), sym.Ite(isDel, uint64(0), st.packed)))
		nn := sym.Ite(isSet, uint64(1), sym.Ite(isMerge, st.n+1, sym.Ite(isDel, uint64(0), st.n)))
		st = hModelVal{sym.Ite(vis, np, st.present), sym.Ite(vis, npacked, st.packed), sym.Ite(vis, nn, st.n)}
	}
	return st
}

func hPack(v []byte) (packed, n uint64) {
	for i, b := range v {
		packed |= uint64(b) << (8 * uint(i))
	}
	return packed, uint64(len(v))
}

// hSliceIter is a contract-conformant level iterator over sorted KVs. Unlike
// base.FakeIter it does not assert more than TrySeekUsingNext promises: with
// the flag it never moves backwards, without it it seeks from the start.
type hSliceIter struct {
	kvs          []base.InternalKV
	i            int // -1 before first, len after last
	lower, upper []byte
}

func (s *hSliceIter) at() *base.InternalKV {
	if s.i < 0 || s.i >= len(s.kvs) {
		return nil
	}
	k := s.kvs[s.i].K.UserKey
	if s.upper != nil && bytes.Compare(k, s.upper) >= 0 {
		return nil
	}
	if s.lower != nil && bytes.Compare(k, s.lower) < 0 {
		return nil
	}
	return &s.kvs[s.i]
}
func (s *hSliceIter) SeekGE(key []byte, flags base.SeekGEFlags) *base.InternalKV {
	if !flags.TrySeekUsingNext() || s.i < 0 {
		s.i = 0
	}
	for s.i < len(s.kvs) && bytes.Compare(s.kvs[s.i].K.UserKey, key) < 0 {
		s.i++
	}
	return s.at()
}
func (s *hSliceIter) SeekPrefixGE(prefix, key []byte, flags base.SeekGEFlags) *base.InternalKV {
	return s.SeekGE(key, flags)
}
func (s *hSliceIter) SeekLT(key []byte, flags base.SeekLTFlags) *base.InternalKV {
	s.i = len(s.kvs) - 1
	for s.i >= 0 && bytes.Compare(s.kvs[s.i].K.UserKey, key) >= 0 {
		s.i--
	}
	return s.at()
}
func (s *hSliceIter) First() *base.InternalKV {
	s.i = 0
	if s.lower != nil {
		return s.SeekGE(s.lower, base.SeekGEFlagsNone)
	}
	return s.at()
}
func (s *hSliceIter) Last() *base.InternalKV {
	s.i = len(s.kvs) - 1
	if s.upper != nil {
		return s.SeekLT(s.upper, base.SeekLTFlagsNone)
	}
	return s.at()
}
func (s *hSliceIter) Next() *base.InternalKV {
	if s.i < len(s.kvs) {
		s.i++
	}
	return s.at()
}
func (s *hSliceIter) NextPrefix(succKey []byte) *base.InternalKV {
	return s.SeekGE(succKey, base.SeekGEFlagsNone.EnableTrySeekUsingNext())
}
func (s *hSliceIter) Prev() *base.InternalKV {
	if s.i >= 0 {
		s.i--
	}
	return s.at()
}
func (s *hSliceIter) Error() error                      { return nil }
func (s *hSliceIter) Close() error                      { return nil }
func (s *hSliceIter) SetBounds(lower, upper []byte)     { s.lower, s.upper = lower, upper }
func (s *hSliceIter) SetContext(context.Context)        {}
func (s *hSliceIter) String() string                    { return "hslice" }
func (s *hSliceIter) TreeStepsNode() treesteps.NodeInfo { return treesteps.NodeInfof(s, "hslice") }

// hBuildLevels turns the placed history into mergingIter levels: point keys
// sorted by InternalCompare, range deletions fragmented by the real Fragmenter.
func hBuildLevels(h []hWrite, L int) []mergingIterLevel {
	cmp := base.DefaultComparer.Compare
	levels := make([]mergingIterLevel, L)
	for lv := 0; lv < L; lv++ {
		var kvs []base.InternalKV
		var spans []keyspan.Span
		frag := keyspan.Fragmenter{Cmp: cmp, Format: base.DefaultFormatter, Emit: func(s keyspan.Span) { spans = append(spans, s) }}
		var dels []hWrite
		for _, w := range h {
			if w.level != lv {
				continue
			}
			if w.kind == hKRDel {
				dels = append(dels, w)
				continue
			}
			var v []byte
			if w.kind == hKSet || w.kind == hKMerge || w.kind == hKSetDel {
				v = []byte{w.val}
			}
			kvs = append(kvs, base.InternalKV{K: base.MakeInternalKey(hKeyBytes(w.key), w.seq, w.kind), V: base.MakeInPlaceValue(v)})
		}
		for i := 1; i < len(kvs); i++ { // sort by InternalCompare
			for j := i; j > 0 && base.InternalCompare(cmp, kvs[j].K, kvs[j-1].K) < 0; j-- {
				kvs[j], kvs[j-1] = kvs[j-1], kvs[j]
			}
		}
		for i := 1; i < len(dels); i++ { // the fragmenter wants spans sorted by start
			for j := i; j > 0 && dels[j].key < dels[j-1].key; j-- {
				dels[j], dels[j-1] = dels[j-1], dels[j]
			}
		}
		for _, d := range dels {
			frag.Add(keyspan.Span{Start: hKeyBytes(d.key), End: hKeyBytes(d.end),
				Keys: []keyspan.Key{{Trailer: base.MakeTrailer(d.seq, hKRDel)}}})
		}
		frag.Finish()
		levels[lv].index = lv
		levels[lv].iter = &hSliceIter{kvs: kvs, i: -1}
		levels[lv].rangeDelIter = keyspan.NewIter(cmp, spans)
	}
	return levels
}

// hNewIterator wires Iterator -> mergingIter -> levels the way iterator_test.go does.
func hNewIterator(levels []mergingIterLevel, readSeq base.SeqNum, opts *IterOptions) *Iterator {
	it := &Iterator{comparer: base.DefaultComparer, merge: base.DefaultMerger.Merge}
	if opts != nil {
		it.opts = *opts
	}
	if hUseDB {
		return hNewIteratorDB(levels, readSeq, opts)
	}
	if hUseLevelIter {
		hWithLevelIter(levels, it.opts)
	}
	mi := &mergingIter{}
	mi.init(&it.opts, &it.stats.InternalStats, base.DefaultComparer.Compare, base.DefaultComparer.Split, levels...)
	mi.snapshot = readSeq
	it.iter = mi
	return it
}

type hOut struct {
	key       byte
	packed, n uint64
}

func hCur(it *Iterator) hOut {
	k := it.Key()
	sym.Assert(len(k) == len(hKeyPrefix)+1, "key-length")
	if len(k) != len(hKeyPrefix)+1 {
		return hOut{}
	}
	sym.Assert(bytes.Equal(k[:len(hKeyPrefix)], hKeyPrefix), "key-prefix")
	p, n := hPack(it.Value())
	return hOut{k[len(hKeyPrefix)], p, n}
}

// hCheckScan compares a complete scan (keys ascending) with the model over the alphabet.
func hCheckScan(out []hOut, h []hWrite, readSeq base.SeqNum, tag string) {
	for i := range out {
		sym.Assert(sym.And(out[i].key >= hKeyLo, out[i].key <= hKeyHi), tag+"-key-in-alphabet")
		if i > 0 {
			sym.Assert(out[i-1].key < out[i].key, tag+"-keys-strictly-ascending")
		}
	}
	for k := hKeyLo; k <= hKeyHi; k++ {
		want := hModelGet(h, k, readSeq)
		found, valueOK := false, true
		for _, o := range out {
			here := o.key == k
			found = sym.Or(found, here)
			valueOK = sym.And(valueOK, sym.Implies(here, sym.And(o.packed == want.packed, o.n == want.n)))
		}
		sym.Assert(found == want.present, tag+"-presence")
		sym.Assert(sym.Implies(want.present, valueOK), tag+"-value")
	}
}

// hWithLevelIter replaces the bottom level of levels (which must hold point
// keys only) by the real levelIter over two "files": the level's sorted point
// keys are cut at a symbolic position (never inside a user key's versions)
// into two tables whose metadata carries the real bounds; the per-file
// iterators are harness slice iterators. This puts level_iter.go (file
// switching, bounds, seeks landing between files) under the same oracles.
var hLevelIterCut = -1

func hWithLevelIter(levels []mergingIterLevel, opts IterOptions) {
	last := len(levels) - 1
	src := levels[last].iter.(*hSliceIter)
	kvs := src.kvs
	cmp := base.DefaultComparer.Compare
	// one cut position per run (the reference scan and the iterator under test share it)
	if hLevelIterCut < 0 || hLevelIterCut > len(kvs) {
		hLevelIterCut = sym.Choose("file-cut", len(kvs)+1)
	}
	cut := hLevelIterCut
	if cut > 0 && cut < len(kvs) {
		sym.Assume(kvs[cut-1].K.UserKey[0] != kvs[cut].K.UserKey[0]) // a user key's versions stay in one file
	}
	var files []*manifest.TableMetadata
	byNum := map[base.TableNum][]base.InternalKV{}
	for i, part := range [][]base.InternalKV{kvs[:cut], kvs[cut:]} {
		if len(part) == 0 {
			continue
		}
		m := &manifest.TableMetadata{TableNum: base.TableNum(i + 1), Size: 1}
		m.ExtendPointKeyBounds(cmp, part[0].K.Clone(), part[len(part)-1].K.Clone())
		m.InitPhysicalBacking()
		files = append(files, m)
		byNum[m.TableNum] = part
	}
	newIters := func(ctx context.Context, file *manifest.TableMetadata, o *IterOptions, _ internalIterOpts, kinds iterKinds) (iterSet, error) {
		it := &hSliceIter{kvs: byNum[file.TableNum], i: -1}
		if o != nil {
			it.SetBounds(o.LowerBound, o.UpperBound)
		}
		return iterSet{point: it}, nil
	}
	ls := manifest.NewLevelSliceKeySorted(cmp, files)
	li := &levelIter{}
	li.init(context.Background(), opts, base.DefaultComparer, newIters, ls.Iter(), manifest.Level(6), internalIterOpts{})
	li.initRangeDel(&levels[last])
	levels[last].rangeDelIter = nil
	levels[last].levelIter = li
	levels[last].iter = li
}
