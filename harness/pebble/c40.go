package pebble

import (
	"sort"

	"github.com/cockroachdb/errors/oserror"
	sym "github.com/cockroachdb/pebble/internal/verifsym"
	"github.com/cockroachdb/pebble/vfs"
	"github.com/cockroachdb/pebble/vfs/atomicfs"
)

// hCrashDir is the one-directory filesystem with an explicit crash model used
// for the marker protocol (see the C24 harness): every mutating call is an fs
// op; after crashAt ops the process is dead and later ops have no effect.
type hCrashDir struct {
	vfs.FS
	cur, synced map[string]bool
	log         []hDirOp
	ops         int
	crashAt     int
	onOp        func() // called at every fs op, before it takes (or fails to take) effect
}
type hDirOp struct {
	name   string
	create bool
}

func (d *hCrashDir) dead() bool {
	if d.onOp != nil {
		d.onOp()
	}
	d.ops++
	return d.ops > d.crashAt
}
func (d *hCrashDir) PathJoin(elem ...string) string { return elem[len(elem)-1] }
func (d *hCrashDir) List(string) ([]string, error) {
	var ls []string
	for n := range d.cur {
		ls = append(ls, n)
	}
	sort.Strings(ls)
	return ls, nil
}
func (d *hCrashDir) Create(name string, _ vfs.DiskWriteCategory) (vfs.File, error) {
	if !d.dead() {
		d.cur[name] = true
		d.log = append(d.log, hDirOp{name, true})
	}
	return &hCrashFile{d: d}, nil
}
func (d *hCrashDir) Remove(name string) error {
	if !d.cur[name] {
		return oserror.ErrNotExist
	}
	if !d.dead() {
		delete(d.cur, name)
		d.log = append(d.log, hDirOp{name, false})
	}
	return nil
}
func (d *hCrashDir) OpenDir(string) (vfs.File, error) { return &hCrashFile{d: d, dir: true}, nil }

type hCrashFile struct {
	vfs.File
	d   *hCrashDir
	dir bool
}

func (f *hCrashFile) Close() error { return nil }
func (f *hCrashFile) Sync() error {
	if f.dir && !f.d.dead() {
		f.d.synced = map[string]bool{}
		for n := range f.d.cur {
			f.d.synced[n] = true
		}
		f.d.log = nil
	}
	return nil
}

// afterCrash returns one directory state the crash model allows.
func (d *hCrashDir) afterCrash() *hCrashDir {
	out := map[string]bool{}
	for n := range d.synced {
		out[n] = true
	}
	if sym.Bool("orderedModel") {
		k := sym.Choose("prefix", len(d.log)+1)
		for _, op := range d.log[:k] {
			if op.create {
				out[op.name] = true
			} else {
				delete(out, op.name)
			}
		}
	} else {
		for n := range d.cur {
			if sym.Bool("survive:" + n) {
				out[n] = true
			}
		}
	}
	return &hCrashDir{cur: out, synced: out, crashAt: 1 << 30}
}

// the versions whose migrations only finalize the upgrade (no LSM work)
const hFmvLo, hFmvHi = FormatDeleteSizedAndObsolete, FormatIngestBlobFiles

// VerifHarness_C40_Ratchet: ratcheting the format major version from any
// supported version to any other, with a crash after any number of filesystem
// operations: a target below the current version is refused and changes
// nothing; the in-memory version only ever steps up by one through finalized
// versions; after a crash the version read back from the directory lies
// between the starting version and the target; once the call has returned it
// is the target, in memory and on disk.
func VerifHarness_C40_Ratchet() {
	span := int(hFmvHi - hFmvLo)
	cur := hFmvLo + FormatMajorVersion(sym.Choose("current", span+1))
	maxStep := 3
	if sym.Thorough() {
		maxStep = 6
	}
	target := cur + FormatMajorVersion(sym.Choose("target-offset", maxStep+2)) - 1 // cur-1 .. cur+maxStep
	sym.Assume(target >= hFmvLo-1 && target <= hFmvHi)

	dir := &hCrashDir{cur: map[string]bool{}, synced: map[string]bool{}, crashAt: 1 << 30}
	marker, _, err := atomicfs.LocateMarker(dir, "", formatVersionMarkerName)
	sym.Assert(err == nil, "locate-empty")
	sym.Assert(marker.Move(cur.String()) == nil, "initial-version-written")

	var upgrades []FormatMajorVersion
	d := &DB{opts: &Options{EventListener: &EventListener{FormatUpgrade: func(v FormatMajorVersion) { upgrades = append(upgrades, v) }}}}
	d.mu.formatVers.vers.Store(uint64(cur))
	d.mu.formatVers.marker = marker

	dir.ops = 0
	dir.crashAt = sym.Choose("crashAt", 3*maxStep+2)
	// what the live DB reports (FormatMajorVersion is read without the mutex) at each fs op
	var liveAt []FormatMajorVersion
	dir.onOp = func() { liveAt = append(liveAt, d.FormatMajorVersion()) }
	rerr := d.ratchetFormatMajorVersionLocked(target)
	dir.onOp = nil
	returned := dir.ops <= dir.crashAt

	if target < cur {
		sym.Assert(rerr != nil, "downgrade-refused")
		sym.Assert(d.FormatMajorVersion() == cur && len(upgrades) == 0 && dir.ops == 0, "refused-ratchet-changes-nothing")
	} else {
		sym.Assert(rerr == nil, "ratchet-succeeds")
		sym.Assert(d.FormatMajorVersion() == target, "in-memory-version-is-the-target")
	}
	prev := cur
	for _, v := range upgrades {
		sym.Assert(v == prev+1, "version-steps-up-by-one")
		prev = v
	}
	sym.Assert(!d.mu.formatVers.ratcheting, "ratcheting-flag-cleared")

	post := dir.afterCrash()
	ls, _ := post.List("")
	got, _, lerr := lookupFormatMajorVersion(post, "", ls)
	sym.Assert(lerr == nil, "version-readable-after-crash")
	lo, hi := cur, target
	if hi < lo {
		hi = lo
	}
	sym.Assert(got >= lo && got <= hi, "recovered-version-between-start-and-target")
	if returned && rerr == nil && target >= cur {
		sym.Assert(got == target, "durable-once-returned")
	}
	// the version never goes backwards across a crash: what is recovered is at least what the
	// running DB reported at the moment it died (the first fs op that did not take effect)
	liveAtDeath := d.FormatMajorVersion()
	if dir.crashAt < len(liveAt) {
		liveAtDeath = liveAt[dir.crashAt]
	}
	sym.Assert(got >= liveAtDeath, "recovered-version-not-below-what-the-live-db-reported")
	sym.Reach("ratchet")
}
