package pebble

import (
	"unsafe"

	"github.com/cockroachdb/pebble/internal/base"
	"github.com/cockroachdb/pebble/internal/manual"
	sym "github.com/cockroachdb/pebble/internal/verifsym"
)

// hMemtableLevel replaces level 0 of levels by a real memTable: the writes
// placed in level 0 are encoded into real Batches (one per write, in commit
// order) and applied with memTable.prepare/apply - the arena skiplist for
// points, the range-deletion skiplist and its fragmenting span cache for
// tombstones - and the level's iterators are the memtable's own.
func hMemtableLevel(h []hWrite, levels []mergingIterLevel) {
	buf := make([]byte, 8192)
	m := new(memTable)
	m.init(memTableOptions{
		Options:  &Options{Comparer: base.DefaultComparer},
		arenaBuf: manual.MakeBufUnsafe(unsafe.Pointer(&buf[0]), uintptr(len(buf))),
		size:     len(buf),
	})
	for _, w := range h {
		if w.level != 0 {
			continue
		}
		b := newBatch(nil)
		var err error
		switch w.kind {
		case hKSet:
			err = b.Set(hKeyBytes(w.key), []byte{w.val}, nil)
		case hKDel:
			err = b.Delete(hKeyBytes(w.key), nil)
		case hKMerge:
			err = b.Merge(hKeyBytes(w.key), []byte{w.val}, nil)
		case hKSDel:
			err = b.SingleDelete(hKeyBytes(w.key), nil)
		case hKRDel:
			err = b.DeleteRange(hKeyBytes(w.key), hKeyBytes(w.end), nil)
		default:
			sym.Assume(false) // kinds a user batch cannot carry stay out of the memtable level
		}
		sym.Assert(err == nil, "batch-op")
		sym.Assert(m.prepare(b) == nil, "memtable-prepare")
		sym.Assert(m.apply(b, w.seq) == nil, "memtable-apply")
	}
	levels[0].iter = m.newIter(nil)
	levels[0].rangeDelIter = m.newRangeDelIter(nil)
}

var hUseMemtable bool

// level 0 is a real memtable filled through real batches
func VerifHarness_C01_ReadsMemtable() {
	hUseMemtable = true
	sym.FixRandom() // skiplist towers of height 1
	hReads(2, 2, hPointAndRangeKinds)
}

func VerifHarness_C01_ReadsMemtable3_Thorough() {
	hUseMemtable = true
	sym.FixRandom()
	hReads(3, 2, hPointAndRangeKinds)
}

// tower heights 1..2 as a symbolic choice per insert
func VerifHarness_C01_ReadsMemtableTowers_Deep() {
	hUseMemtable = true
	hReads(3, 2, hPointAndRangeKinds)
}
