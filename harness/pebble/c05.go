package pebble

import (
	"github.com/cockroachdb/pebble/internal/base"
	sym "github.com/cockroachdb/pebble/internal/verifsym"
)

// hIndexedBatch: an indexed batch - the real Batch encode path, its
// arena-backed batchskl index, batchIter and the batch's range-deletion
// fragments - is laid as the top level over committed state in the real
// mergingIter/Iterator stack, exactly as DB.newIter wires it. Reads through
// the stack equal the sequential model of "committed writes, then the batch's
// operations in order"; the committed state alone (no batch level) is
// unchanged by the batch (nothing leaks).
func hIndexedBatch(nCommitted, nBatch int) { hIndexedBatchAt(nCommitted, nBatch, false) }

// With earlierView, the iterator's batch sequence number is the one taken after a symbolic
// prefix of the batch's operations (an iterator opened then): operations added to the batch
// later are in the shared index but must stay invisible to it.
func hIndexedBatchAt(nCommitted, nBatch int, earlierView bool) {
	committed := hHistory(sym.Choose("committed", nCommitted+1), hSetDelRDel)
	for i := range committed {
		committed[i].level = 1
	}
	b := newIndexedBatch(nil, base.DefaultComparer)
	nb := 1 + sym.Choose("batch-ops", nBatch)
	ops := hHistory(nb, []base.InternalKeyKind{hKSet, hKDel, hKMerge, hKSDel, hKRDel})
	visibleOps := nb
	if earlierView {
		visibleOps = sym.Choose("iterator-opened-after-ops", nb+1)
	}
	batchSnapshot := b.nextSeqNum()
	for i, w := range ops {
		if i == visibleOps {
			batchSnapshot = b.nextSeqNum()
		}
		var err error
		switch w.kind {
		case hKSet:
			err = b.Set(hKeyBytes(w.key), []byte{w.val}, nil)
		case hKDel:
			err = b.Delete(hKeyBytes(w.key), nil)
		case hKMerge:
			err = b.Merge(hKeyBytes(w.key), []byte{w.val}, nil)
		case hKSDel:
			err = b.SingleDelete(hKeyBytes(w.key), nil)
		case hKRDel:
			err = b.DeleteRange(hKeyBytes(w.key), hKeyBytes(w.end), nil)
		}
		sym.Assert(err == nil, "batch-op")
	}
	sym.Assert(int(b.Count()) == nb, "batch-count")

	// the overlay stack: level 0 = the batch, level 1 = committed state
	readSeq := base.SeqNum(len(committed) + 1)
	if visibleOps == nb {
		batchSnapshot = b.nextSeqNum()
	}
	lower := hBuildLevels(committed, 2)
	levels := []mergingIterLevel{
		{index: 0, iter: b.newInternalIter(nil), rangeDelIter: b.newRangeDelIter(nil, batchSnapshot)},
		lower[1],
	}
	levels[1].index = 1
	it := &Iterator{comparer: base.DefaultComparer, merge: base.DefaultMerger.Merge}
	mi := &mergingIter{}
	mi.init(&it.opts, &it.stats.InternalStats, base.DefaultComparer.Compare, base.DefaultComparer.Split, levels...)
	mi.snapshot = readSeq
	mi.batchSnapshot = batchSnapshot
	it.iter = mi

	// the model: committed history followed by the batch's operations, all visible
	all := append([]hWrite(nil), committed...)
	for i, w := range ops[:visibleOps] {
		w.seq = base.SeqNum(len(committed) + 1 + i)
		all = append(all, w)
	}
	var fwd []hOut
	for valid := it.First(); valid; valid = it.Next() {
		fwd = append(fwd, hCur(it))
		sym.Assert(len(fwd) <= 3, "scan-terminates")
	}
	sym.Assert(it.Error() == nil, "no-error")
	hCheckScan(fwd, all, base.SeqNumMax, "overlay-scan")
	var bwd []hOut
	for valid := it.Last(); valid; valid = it.Prev() {
		bwd = append(bwd, hCur(it))
		sym.Assert(len(bwd) <= 3, "rscan-terminates")
	}
	sym.Assert(len(bwd) == len(fwd), "rscan-same-length")
	if len(bwd) == len(fwd) {
		for i := range bwd {
			o := fwd[len(fwd)-1-i]
			sym.Assert(sym.And(bwd[i].key == o.key, sym.And(bwd[i].packed == o.packed, bwd[i].n == o.n)), "rscan-same-entries")
		}
	}

	// no leak: the committed state read without the batch level is what it was
	plain := hNewIterator(hBuildLevels(committed, 2), readSeq, nil)
	var base0 []hOut
	for valid := plain.First(); valid; valid = plain.Next() {
		base0 = append(base0, hCur(plain))
		sym.Assert(len(base0) <= 3, "scan-terminates")
	}
	hCheckScan(base0, committed, base.SeqNumMax, "committed-scan")
	sym.Reach("overlay")
}

func VerifHarness_C05_IndexedBatch() { hIndexedBatch(1, 2) }

func VerifHarness_C05_BatchSnapshot() { hIndexedBatchAt(1, 2, true) }

// keys that share their first 8 bytes: the batch index cannot tell them apart by abbreviated
// key and must fall back to full comparisons; three operations, so that an insert can land
// between or before existing entries of the same abbreviation
func VerifHarness_C05_LongSharedPrefix() {
	hKeyPrefix = []byte("account-")
	hIndexedBatch(0, 3)
}

func VerifHarness_C05_IndexedBatch3_Thorough() { hIndexedBatch(2, 3) }

// hBatchIterBoundsChange: an iterator over an indexed batch and the DB, built
// by the real DB.newIter (batch level, batchskl iterator, levelIters over stub
// tables), is given bounds, scanned to exhaustion in both directions (so that
// every level has met its bounds), then given other bounds - each side nil or
// a key - and scanned again: it still shows the batch laid over the DB, inside
// the new bounds.
func hBatchIterBoundsChange(nCommitted, nBatch int) {
	committed := hHistory(sym.Choose("committed", nCommitted+1), []base.InternalKeyKind{hKSet})
	for i := range committed {
		committed[i].level = 1
	}
	hDBLean = true
	d := hDBOver(hBuildLevels(committed, 2), base.SeqNum(len(committed)+1))
	b := newIndexedBatch(d, base.DefaultComparer)
	nb := 1 + sym.Choose("batch-ops", nBatch)
	ops := hHistory(nb, []base.InternalKeyKind{hKSet, hKDel})
	for _, w := range ops {
		var err error
		if w.kind == hKSet {
			err = b.Set(hKeyBytes(w.key), []byte{w.val}, nil)
		} else {
			err = b.Delete(hKeyBytes(w.key), nil)
		}
		sym.Assert(err == nil, "batch-op")
	}
	all := append([]hWrite(nil), committed...)
	for i, w := range ops {
		w.seq = base.SeqNum(len(committed) + 1 + i)
		all = append(all, w)
	}

	bound := func(name string) (k byte, set bool) {
		set = sym.Bool(name + "-set")
		if set {
			k = sym.U8(name)
			sym.Assume(sym.And(k >= hKeyLo, k <= hKeyHi+1))
		}
		return
	}
	asBytes := func(k byte, set bool) []byte {
		if !set {
			return nil
		}
		return []byte{k}
	}
	scanCheck := func(it *Iterator, lo byte, loSet bool, hi byte, hiSet bool, tag string) {
		var out []hOut
		for valid := it.First(); valid; valid = it.Next() {
			out = append(out, hCur(it))
			sym.Assert(len(out) <= 3, tag+"-scan-terminates")
		}
		sym.Assert(it.Error() == nil, tag+"-no-error")
		n := 0
		for valid := it.Last(); valid; valid = it.Prev() {
			n++
			sym.Assert(n <= 3, tag+"-rscan-terminates")
		}
		sym.Assert(n == len(out), tag+"-rscan-same-length")
		for k := hKeyLo; k <= hKeyHi; k++ {
			want := hModelGet(all, k, base.SeqNumMax)
			inside := sym.And(sym.Or(!loSet, k >= lo), sym.Or(!hiSet, k < hi))
			found, valueOK := false, true
			for _, o := range out {
				here := o.key == k
				found = sym.Or(found, here)
				valueOK = sym.And(valueOK, sym.Implies(here, sym.And(o.packed == want.packed, o.n == want.n)))
			}
			sym.Assert(found == sym.And(inside, want.present), tag+"-presence")
			sym.Assert(sym.Implies(found, valueOK), tag+"-value")
		}
	}

	lo, loSet := bound("lower")
	hi, hiSet := bound("upper")
	sym.Assume(sym.Or(sym.Or(!loSet, !hiSet), lo < hi))
	it := d.newIter(nil, b, newIterOpts{}, &IterOptions{LowerBound: asBytes(lo, loSet), UpperBound: asBytes(hi, hiSet)})
	scanCheck(it, lo, loSet, hi, hiSet, "first-bounds")

	lo2, loSet2 := bound("new-lower")
	hi2, hiSet2 := bound("new-upper")
	sym.Assume(sym.Or(sym.Or(!loSet2, !hiSet2), lo2 < hi2))
	it.SetBounds(asBytes(lo2, loSet2), asBytes(hi2, hiSet2))
	scanCheck(it, lo2, loSet2, hi2, hiSet2, "new-bounds")
	sym.Assert(it.Close() == nil, "close")
	sym.Reach("bounds-changed")
}

func VerifHarness_C05_BatchIterBoundsChange() { hBatchIterBoundsChange(1, 2) }
