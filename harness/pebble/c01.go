package pebble

import (
	"github.com/cockroachdb/pebble/internal/base"
	sym "github.com/cockroachdb/pebble/internal/verifsym"
)

var hPointAndRangeKinds = []base.InternalKeyKind{hKSet, hKDel, hKMerge, hKSDel, hKRDel}
var hAllKinds = []base.InternalKeyKind{hKSet, hKDel, hKMerge, hKSDel, hKDSized, hKRDel, hKSetDel}
var hCompactedKinds = []base.InternalKeyKind{hKSetDel, hKMerge, hKSDel, hKDel}

// hReads: a commit-ordered history placed into levels in a way the LSM
// invariant allows reads back - full scans in both directions and seeks to
// every key - exactly as the sequential model says, at any read sequence number.
func hReads(N, L int, kinds []base.InternalKeyKind) {
	n := 1 + sym.Choose("n", N)
	h := hHistory(n, kinds)
	hPlace(h, L)
	if hUseLevelIter {
		hNoRangeDelAtBottom(h, L)
	}
	readSeq := base.SeqNum(sym.Range("readSeq", 1, n+1))
	levels := hBuildLevels(h, L)
	if hUseMemtable {
		hMemtableLevel(h, levels)
	}
	it := hNewIterator(levels, readSeq, nil)

	var fwd []hOut
	for valid := it.First(); valid; valid = it.Next() {
		fwd = append(fwd, hCur(it))
		sym.Assert(len(fwd) <= 3, "scan-terminates")
	}
	sym.Assert(it.Error() == nil, "no-error")
	hCheckScan(fwd, h, readSeq, "scan")

	var bwd []hOut
	for valid := it.Last(); valid; valid = it.Prev() {
		bwd = append(bwd, hCur(it))
		sym.Assert(len(bwd) <= 3, "rscan-terminates")
	}
	sym.Assert(len(bwd) == len(fwd), "rscan-same-length")
	if len(bwd) == len(fwd) {
		for i := range bwd {
			o := fwd[len(fwd)-1-i]
			sym.Assert(sym.And(bwd[i].key == o.key, sym.And(bwd[i].packed == o.packed, bwd[i].n == o.n)), "rscan-same-entries")
		}
	}

	// point lookups through seeks
	for q := hKeyLo; q <= hKeyHi; q++ {
		valid := it.SeekGE([]byte{q})
		anyAtOrAfter := false
		for k := q; k <= hKeyHi; k++ {
			anyAtOrAfter = sym.Or(anyAtOrAfter, hModelGet(h, k, readSeq).present)
		}
		sym.Assert(valid == anyAtOrAfter, "seek-valid")
		if valid {
			o := hCur(it)
			sym.Assert(o.key >= q, "seek-at-or-after")
			noneBefore := true
			for k := q; k <= hKeyHi; k++ {
				want := hModelGet(h, k, readSeq)
				sym.Assert(sym.Implies(o.key == k, sym.And(want.present, sym.And(noneBefore, sym.And(o.packed == want.packed, o.n == want.n)))), "seek-lands-on-first-visible")
				noneBefore = sym.And(noneBefore, !want.present)
			}
		}
	}
	sym.Reach("reads")
}

func VerifHarness_C01_Reads() { hReads(3, 2, hPointAndRangeKinds) }

// the kinds compactions leave behind (SETWITHDEL) under newer merges and deletes
func VerifHarness_C01_ReadsCompactedKinds() { hReads(3, 2, hCompactedKinds) }

func VerifHarness_C01_Reads4_Deep() {
	hReads(4, 2, []base.InternalKeyKind{hKSet, hKDel, hKMerge, hKRDel})
}

func VerifHarness_C01_ReadsAllKinds_Deep() { hReads(3, 3, hAllKinds) }

// the bottom level is the real levelIter over two files
func VerifHarness_C01_ReadsLevelIter() {
	hUseLevelIter = true
	hReads(2, 2, []base.InternalKeyKind{hKSet, hKDel, hKMerge, hKRDel})
}

func VerifHarness_C01_ReadsLevelIter3_Thorough() {
	hUseLevelIter = true
	hReads(3, 2, []base.InternalKeyKind{hKSet, hKDel, hKMerge, hKRDel})
}
