package virtual

import (
	"bytes"

	"github.com/cockroachdb/pebble/internal/base"
	sym "github.com/cockroachdb/pebble/internal/verifsym"
)

func hKey(name string) []byte {
	b := sym.Bytes(name, 2)
	return b
}

// cmp as a term: -1, 0, 1
func hLess(a, b []byte) bool  { return bytes.Compare(a, b) < 0 }
func hEqual(a, b []byte) bool { return bytes.Equal(a, b) }

// VerifHarness_C29_ConstrainBounds: the bounds a virtual table hands to its
// reader are exactly the intersection of the requested range with the virtual
// table's own bounds: an arbitrary probe key lies inside the constrained range
// iff it lies inside both.
func VerifHarness_C29_ConstrainBounds() {
	lower, upper := hKey("virtual-lower"), hKey("virtual-upper")
	sym.Assume(bytes.Compare(lower, upper) <= 0)
	v := &VirtualReaderParams{
		Lower: base.MakeInternalKey(lower, base.SeqNum(sym.U8("lower-seq")), base.InternalKeyKindSet),
		Upper: base.MakeInternalKey(upper, base.SeqNum(sym.U8("upper-seq")), base.InternalKeyKindSet),
	}
	upperExclusive := sym.Bool("virtual-upper-exclusive")
	if upperExclusive {
		// every kind of exclusive sentinel a table bound can carry
		kinds := []base.InternalKeyKind{base.InternalKeyKindRangeDelete, base.InternalKeyKindRangeKeySet, base.InternalKeyKindRangeKeyUnset, base.InternalKeyKindRangeKeyDelete}
		v.Upper = base.MakeExclusiveSentinelKey(kinds[sym.Choose("sentinel-kind", len(kinds))], upper)
	}
	var start, end []byte
	if sym.Bool("has-start") {
		start = hKey("start")
		if len(start) == 0 {
			start = []byte{} // non-nil empty key
		}
	}
	hasEnd := sym.Bool("has-end")
	if hasEnd {
		end = hKey("end")
		if len(end) == 0 {
			end = []byte{}
		}
	}
	endInclusive := sym.Bool("end-inclusive")

	incl, first, last := v.ConstrainBounds(start, end, endInclusive, base.DefaultComparer.Compare)

	k := hKey("probe")
	cmpTo := func(a, b []byte) int { return bytes.Compare(a, b) }
	inVirtual := cmpTo(k, lower) >= 0 && (cmpTo(k, upper) < 0 || (cmpTo(k, upper) == 0 && !upperExclusive))
	inRequest := (start == nil || cmpTo(k, start) >= 0) && (!hasEnd || cmpTo(k, end) < 0 || (cmpTo(k, end) == 0 && endInclusive))
	inResult := cmpTo(k, first) >= 0 && (cmpTo(k, last) < 0 || (cmpTo(k, last) == 0 && incl))
	sym.Assert(inResult == (inVirtual && inRequest), "constrained-range-is-the-intersection")
	sym.Reach("constrained")
}
