package record

import (
	"encoding/binary"
	"github.com/cockroachdb/errors"
	"io"
	"math"

	"github.com/cockroachdb/pebble/internal/crc"
	sym "github.com/cockroachdb/pebble/internal/verifsym"
)

// VerifHarness_C19_CorruptionReported: the reader stands at any position of a
// block with arbitrary content. If what it finds there is damaged (invalid or
// zeroed chunk) and the next block starts with intact WAL-sync chunks of this
// log, one of which records a synced offset beyond the damaged position, Next
// must return the corruption error - not a clean end of log. A chunk whose
// checksum does not match is never handed out as data.
func VerifHarness_C19_CorruptionReported() {
	hInit()
	logNum := sym.U32("logNum")
	pos := int(sym.U16("pos"))
	sym.Assume(pos <= blockSize)
	blk := sym.Block("block0", blockSize)

	// what lies between the damage and the evidence (see below); with a block in between the
	// evidence block is kept to one chunk
	between := sym.Choose("block-between", 4)

	// the evidence: a following block written by the real writer
	w := &LogWriter{logNum: logNum, block: &block{}}
	nChunks := 1
	if between == 0 {
		nChunks = 1 + sym.Choose("later-chunks", 2)
	}
	synced := make([]uint64, nChunks)
	for i := 0; i < nChunks; i++ {
		synced[i] = sym.U64("syncedOffset")
		w.syncedOffset.Store(synced[i])
		plen := 1
		if between == 0 {
			plen = sym.Choose("later-len", 3)
		}
		w.emitFragmentSyncOffsets(0, sym.BytesN("later-payload", plen))
	}
	next := make([]byte, blockSize)
	copy(next, w.block.buf[:])

	// Optionally a block lies between the damage and the evidence: all zeros (a zeroed or
	// preallocated extent), a stale chunk of another log (recycled file), or an intact chunk of
	// this log that proves nothing, followed by zeros. The read-ahead has to look past it.
	following := [][]byte{next}
	switch between {
	case 1:
		following = [][]byte{make([]byte, blockSize), next}
	case 2:
		other := sym.U32("stale-log")
		sym.Assume(other != logNum)
		sw := &LogWriter{logNum: other, block: &block{}}
		sw.emitFragmentSyncOffsets(0, sym.BytesN("stale-payload", 1))
		mid := make([]byte, blockSize)
		copy(mid, sw.block.buf[:])
		following = [][]byte{mid, next}
	case 3:
		mw := &LogWriter{logNum: logNum, block: &block{}}
		mw.syncedOffset.Store(0) // proves nothing
		mw.emitFragmentSyncOffsets(0, sym.BytesN("mid-payload", 1))
		mid := make([]byte, blockSize)
		copy(mid, mw.block.buf[:])
		following = [][]byte{mid, next}
	}

	r := &Reader{r: &hBlocks{blocks: following}, logNum: logNum, blockNum: 0, begin: pos, end: pos, n: blockSize, invalidOffset: math.MaxUint64}
	copy(r.buf[:], blk)
	// The damaged chunk is the one at pos: paths on which nextChunk first skips over intact
	// chunks or a zeroed block tail (and so meets damage further on) are cut - the same step
	// from the later position is another instance of this harness.
	sym.LoopBound("nextChunk", 0, nil)
	// block0 is arbitrary, so the checksum of the chunk at pos is unconstrained whatever its
	// length: lengths above 2 share one over-approximating term instead of one case each
	sym.CrcBound(2)
	rec, err := r.Next()
	if err == nil {
		_ = rec // a chunk was accepted (its validity is VerifHarness_C19_AcceptedChunkIsValid's subject)
		sym.Reach("accepted")
		return
	}
	damaged := r.err == ErrInvalidChunk || r.err == ErrZeroedChunk
	if !damaged {
		sym.Assert(err == io.EOF || err == ErrUnexpectedEOF, "undamaged-end")
		sym.Reach("clean-end")
		return
	}
	// Sync offsets recorded by the writer are chunk boundaries of the log as written, and the
	// original chunk at pos was a WAL-sync chunk of a non-empty record: an offset that shows the
	// damaged chunk was synced is therefore at least pos + header + 1. Offsets strictly inside
	// (pos, pos+header] cannot occur in a real log and are not constrained here.
	provenSynced, ambiguous := false, false
	for _, s := range synced {
		if s >= uint64(pos)+walSyncHeaderSize+1 {
			provenSynced = true
		} else if s > uint64(pos) {
			ambiguous = true
		}
	}
	if provenSynced {
		sym.Assert(err == ErrInvalidChunk || err == ErrZeroedChunk, "corruption-inside-synced-data-reported")
		sym.Reach("reported")
	} else if !ambiguous {
		sym.Assert(err == ErrUnexpectedEOF, "unproven-damage-is-an-unclean-end")
		sym.Reach("unproven")
	}
}

var wantFirstH bool

// VerifHarness_C19_AcceptedChunkIsValid: one step of nextChunk from an
// arbitrary reader state over arbitrary block content. A chunk it accepts has a
// matching checksum over exactly its bytes, lies inside the valid part of the
// block, carries this log's number (recyclable / WAL-sync formats) and is a
// record start when one was asked for. The step is inductive: at the back edge
// the reader state again satisfies the assumed representation invariant.
func VerifHarness_C19_AcceptedChunkIsValid() {
	hInit()
	logNum := sym.U32("logNum")
	pos := int(sym.U16("pos"))
	n := int(sym.U16("n"))
	sym.Assume(pos <= n && n <= blockSize)
	blk := sym.Block("block", blockSize)
	r := &Reader{r: &hBlocks{}, logNum: logNum, blockNum: 0, begin: pos, end: pos, n: n, invalidOffset: math.MaxUint64}
	copy(r.buf[:], blk)
	sym.LoopBound("nextChunk", 0, func() {
		sym.Assert(0 <= r.begin && r.begin <= r.end && r.end <= r.n && r.n <= blockSize, "reader-invariant-at-back-edge")
		// The step went round the loop without reading a new block: either it skipped the zeroed
		// tail of the block (begin untouched), or it stepped over a chunk that is not a record
		// start. A chunk that is stepped over has been checked like an accepted one - the type byte
		// that made it skippable is covered by the checksum.
		if r.blockNum == 0 && r.begin != pos {
			sym.Assert(wantFirstH, "only-a-record-start-search-steps-over-chunks")
			stored := binary.LittleEndian.Uint32(blk[pos : pos+4])
			sym.Assert(stored == crc.New(blk[pos+6:r.end]).Value(), "stepped-over-chunk-has-matching-checksum")
			sym.Reach("stepped-over")
		}
	})
	// lengths above 3 share the (memory, offset, length) checksum term; the harness recomputes the
	// checksum over the same memory, so equality is still decided
	sym.CrcBound(3)
	wantFirst := sym.Bool("wantFirst")
	wantFirstH = wantFirst
	err := r.nextChunk(wantFirst)
	if !sym.Symbolic() && pos+legacyHeaderSize <= n && int(blk[pos+6]) < len(headerFormatMappings) {
		// Native replay only (the engine decides this at the loop's back edge, a place an ordinary
		// run cannot stop at): a well-formed chunk at pos whose checksum does not match is where
		// the step ends, with the error pointing at it.
		hf := headerFormatMappings[blk[pos+6]]
		end := pos + hf.headerSize + int(binary.LittleEndian.Uint16(blk[pos+4:pos+6]))
		wellFormed := hf.wireFormat != invalidWireFormat && hf.chunkPosition != invalidChunkPosition && end <= n &&
			(hf.wireFormat == legacyWireFormat || binary.LittleEndian.Uint32(blk[pos+7:pos+11]) == logNum)
		if wellFormed && binary.LittleEndian.Uint32(blk[pos:pos+4]) != crc.New(blk[pos+6:end]).Value() {
			sym.Assert(errors.Is(err, ErrInvalidChunk) && r.invalidOffset == uint64(pos+hf.headerSize), "stepped-over-chunk-has-matching-checksum")
		}
	}
	if err != nil {
		sym.Reach("rejected")
		return
	}
	enc := blk[pos+6]
	hf := headerFormatMappings[enc]
	length := int(binary.LittleEndian.Uint16(blk[pos+4 : pos+6]))
	sym.Assert(r.begin == pos+hf.headerSize && r.end == r.begin+length, "payload-is-what-the-header-says")
	sym.Assert(r.end <= n, "chunk-inside-valid-bytes")
	stored := binary.LittleEndian.Uint32(blk[pos : pos+4])
	sym.Assert(stored == crc.New(blk[pos+6:r.end]).Value(), "accepted-chunk-has-matching-checksum")
	if hf.wireFormat != legacyWireFormat {
		sym.Assert(binary.LittleEndian.Uint32(blk[pos+7:pos+11]) == logNum, "accepted-chunk-carries-this-log-number")
	}
	if wantFirst {
		sym.Assert(hf.chunkPosition == fullChunkPosition || hf.chunkPosition == firstChunkPosition, "record-start-when-asked")
	}
	sym.Assert(r.last == (hf.chunkPosition == fullChunkPosition || hf.chunkPosition == lastChunkPosition), "last-flag")
	sym.Reach("accepted")
}
