package record

import (
	"bytes"
	"io"
	"math"

	sym "github.com/cockroachdb/pebble/internal/verifsym"
)

// hBlocks hands the reader whole 32 KiB blocks (what follows the current one).
type hBlocks struct{ blocks [][]byte }

func (s *hBlocks) Read(p []byte) (int, error) {
	if len(s.blocks) == 0 {
		return 0, io.EOF
	}
	n := copy(p, s.blocks[0])
	if n == len(s.blocks[0]) {
		s.blocks = s.blocks[1:]
	} else {
		s.blocks[0] = s.blocks[0][n:]
	}
	return n, nil
}

func hInit() {
	// the bit-flip search is a diagnostic on the error path (outside the claim)
	disableBitFlipCheckForTesting = true
	sym.ConcBound(24)
}

func hEmit(w *LogWriter, format int, payload []byte) {
	p := payload
	for i := 0; i == 0 || len(p) > 0; i++ {
		if format == 0 {
			p = w.emitFragmentRecyclable(i, p)
		} else {
			p = w.emitFragmentSyncOffsets(i, p)
		}
	}
}

func hHeaderSize(format int) int32 {
	if format == 0 {
		return recyclableHeaderSize
	}
	return walSyncHeaderSize
}

// VerifHarness_C18_Agreement: one inductive step. From any writer position in
// a block, a record written in the recyclable or WAL-sync format is parsed by
// a reader standing at the same position as exactly that record (same bytes,
// same boundaries), including the split across the block edge and the zero
// fill when less than a header remains; the reader then reports a clean end.
func VerifHarness_C18_Agreement() {
	hInit()
	P := 6
	if sym.Thorough() {
		P = 10
	}
	format := sym.Choose("format", 2)
	logNum := sym.U32("logNum")
	pos := int32(sym.U16("pos"))
	// writer representation invariant: a block that cannot fit another header has been queued
	sym.Assume(pos <= blockSize-hHeaderSize(format))
	payload := sym.Bytes("payload", P)

	w := &LogWriter{logNum: logNum, block: &block{}}
	w.block.written.Store(pos)
	w.syncedOffset.Store(sym.U64("syncedOffset"))
	first := w.block
	hEmit(w, format, payload)

	src := &hBlocks{}
	r := &Reader{r: src, logNum: logNum, blockNum: 0, begin: int(pos), end: int(pos), invalidOffset: math.MaxUint64}
	r.buf = first.buf
	if w.block == first {
		r.n = int(first.written.Load())
	} else {
		// the first block was completed (zero filled) and queued; the record may continue in the next
		r.n = blockSize
		if w.block.written.Load() > 0 {
			// the file continues with the writer's current block (zero beyond what it has written,
			// as in a preallocated or recycled-and-zeroed file)
			nb := make([]byte, blockSize)
			copy(nb, w.block.buf[:])
			src.blocks = append(src.blocks, nb)
		}
	}
	rec, err := r.Next()
	sym.Assert(err == nil, "record-found")
	if err != nil {
		return
	}
	got, err := io.ReadAll(rec)
	sym.Assert(err == nil, "record-read")
	sym.Assert(bytes.Equal(got, payload), "same-bytes")
	_, err = r.Next()
	sym.Assert(err == io.EOF || IsInvalidRecord(err), "then-clean-end")
	sym.Reach("agreement")
}

// VerifHarness_C18_ForeignChunk: a recyclable / WAL-sync chunk that carries
// another log number is never returned, at a record start or mid-record; it is
// an EOF only when it is the trailer number at a record start.
func VerifHarness_C18_ForeignChunk() {
	hInit()
	format := sym.Choose("format", 2)
	logNum := sym.U32("logNum")
	other := sym.U32("otherLogNum")
	sym.Assume(other != logNum)
	pos := int32(sym.U16("pos"))
	sym.Assume(pos <= blockSize-hHeaderSize(format))
	payload := sym.Bytes("payload", 4)
	w := &LogWriter{logNum: other, block: &block{}}
	w.block.written.Store(pos)
	first := w.block
	if format == 0 {
		w.emitFragmentRecyclable(sym.Choose("fragment", 2), payload)
	} else {
		w.emitFragmentSyncOffsets(sym.Choose("fragment", 2), payload)
	}
	r := &Reader{r: &hBlocks{}, logNum: logNum, blockNum: 0, begin: int(pos), end: int(pos), invalidOffset: math.MaxUint64}
	r.buf = first.buf
	r.n = blockSize
	if w.block == first {
		r.n = int(first.written.Load())
	}
	wantFirst := sym.Bool("wantFirst")
	err := r.nextChunk(wantFirst)
	sym.Assert(err != nil, "foreign-chunk-rejected")
	sym.Assert(err == io.EOF || IsInvalidRecord(err), "rejected-as-end-of-log")
	sym.Assert(err != io.EOF || (other == logNum+1 && wantFirst), "eof-only-for-trailer-number")
	sym.Reach("foreign")
}

// VerifHarness_C18_Truncation: two records written back to back from any
// position; the file is cut at any byte n. The reader returns only whole
// records, in order, and then a clean end - never a partial or merged record.
func VerifHarness_C18_Truncation() {
	hInit()
	P := 3
	if sym.Thorough() {
		P = 6
	}
	format := sym.Choose("format", 2)
	logNum := sym.U32("logNum")
	pos := int32(sym.U16("pos"))
	hs := hHeaderSize(format)
	// both records fit in this block (the split across blocks is covered by Agreement)
	sym.Assume(pos <= blockSize-2*(hs+int32(P))-hs)
	// payload lengths and the cut offset are case-split so that every position is pos + constant
	a, b := sym.BytesN("a", sym.Choose("alen", P+1)), sym.BytesN("b", sym.Choose("blen", P+1))
	w := &LogWriter{logNum: logNum, block: &block{}}
	w.block.written.Store(pos)
	hEmit(w, format, a)
	endA := int(w.block.written.Load())
	hEmit(w, format, b)
	endB := int(w.block.written.Load())
	n := int(pos) + sym.Choose("cut", 2*(int(hs)+P)+1)
	sym.Assume(n <= endB)

	r := &Reader{r: &hBlocks{}, logNum: logNum, blockNum: 0, begin: int(pos), end: int(pos), n: n, invalidOffset: math.MaxUint64}
	r.buf = w.block.buf
	rec, err := r.Next()
	if err != nil {
		sym.Assert(n < endA, "first-record-lost-only-if-cut-inside-it")
		sym.Assert(err == io.EOF || IsInvalidRecord(err), "clean-end")
		sym.Reach("cut-in-first")
		return
	}
	got, err := io.ReadAll(rec)
	sym.Assert(err == nil && bytes.Equal(got, a), "first-record-whole")
	sym.Assert(n >= endA, "first-record-returned-only-if-complete")
	rec, err = r.Next()
	if err != nil {
		sym.Assert(n < endB, "second-record-lost-only-if-cut-inside-it")
		sym.Assert(err == io.EOF || IsInvalidRecord(err), "clean-end")
		sym.Reach("cut-in-second")
		return
	}
	got, err = io.ReadAll(rec)
	sym.Assert(err == nil && bytes.Equal(got, b), "second-record-whole")
	sym.Assert(n == endB, "second-record-returned-only-if-complete")
	_, err = r.Next()
	sym.Assert(err == io.EOF || IsInvalidRecord(err), "clean-end")
	sym.Reach("uncut")
}

type hSink struct{ buf []byte }

func (s *hSink) Write(p []byte) (int, error) { s.buf = append(s.buf, p...); return len(p), nil }

// VerifHarness_C18_LegacyRoundTrip: the legacy Writer (MANIFEST format) and
// the Reader agree end to end on up to two records, and a truncated file
// yields a prefix of whole records.
func VerifHarness_C18_LegacyRoundTrip() {
	hInit()
	P := 4
	a, b := sym.Bytes("a", P), sym.Bytes("b", P)
	sink := &hSink{}
	w := NewWriter(sink)
	_, err := w.WriteRecord(a)
	sym.Assert(err == nil, "write-a")
	two := sym.Bool("two")
	if two {
		_, err = w.WriteRecord(b)
		sym.Assert(err == nil, "write-b")
	}
	sym.Assert(w.Close() == nil, "close")
	file := sink.buf
	cut := sym.Choose("cut", len(file)+1)
	file = file[:cut]
	r := NewReader(bytes.NewReader(file), 0)
	rec, err := r.Next()
	if err != nil {
		sym.Assert(cut < legacyHeaderSize+len(a), "first-record-lost-only-if-cut")
		sym.Assert(err == io.EOF || IsInvalidRecord(err), "clean-end")
		sym.Reach("legacy-cut-first")
		return
	}
	got, err := io.ReadAll(rec)
	sym.Assert(err == nil && bytes.Equal(got, a), "first-record-whole")
	rec, err = r.Next()
	if err == nil {
		got, err = io.ReadAll(rec)
		sym.Assert(two && err == nil && bytes.Equal(got, b), "second-record-whole")
		_, err = r.Next()
	}
	sym.Assert(err == io.EOF || IsInvalidRecord(err), "clean-end")
	sym.Reach("legacy")
}
