package record

import (
	"errors"
	"sync"

	"github.com/cockroachdb/pebble/internal/base"
	sym "github.com/cockroachdb/pebble/internal/verifsym"
)

// hSyncFile is the log file: it counts the bytes written and the bytes made
// durable by Sync, and fails the operation number failAt (0 = never).
type hSyncFile struct {
	written, synced int64
	ops, failAt     int
	failed          bool
	transient       bool // only operation number failAt fails; otherwise it and every later one
}

var errInjected = errors.New("verif: injected I/O error")

func (f *hSyncFile) op() error {
	f.ops++
	if f.failAt != 0 && (f.ops == f.failAt || (!f.transient && f.ops > f.failAt)) {
		f.failed = true
		return errInjected
	}
	return nil
}

func (f *hSyncFile) Write(p []byte) (n int, err error) {
	sym.Atomic(func() {
		if err = f.op(); err == nil {
			f.written += int64(len(p))
			n = len(p)
		}
	})
	return n, err
}

func (f *hSyncFile) Sync() (err error) {
	sym.Atomic(func() {
		if err = f.op(); err == nil {
			f.synced = f.written
		}
	})
	return err
}

func (f *hSyncFile) Close() error { return nil }

type hSyncWaiter struct {
	wg     sync.WaitGroup
	err    error
	end    int64 // log size once this record is written
	acked  bool
	queued int // number of file operations that had happened when the record was queued
}

// hSyncAck: records are written with SyncRecord by one writer while the real
// flush loop runs concurrently (schedule = solver variable) over a file that
// tracks what has been made durable and may fail at a symbolic point. When a
// waiter is released without an error, the file has been synced at least up
// to the end of its record (hence of all earlier ones); after an I/O error no
// later waiter is released without an error; nobody is left waiting after Close.
func hSyncAck(nRecords int, withFailure bool) { hSyncAckX(nRecords, withFailure, false, false) }

// With transient only one file operation fails (the device recovers); with bigLast the last
// record is one block long, so it spans two blocks and a flush can carry a full block and a
// tail at once.
func hSyncAckX(nRecords int, withFailure, transient, bigLast bool) {
	file := &hSyncFile{transient: transient}
	if withFailure {
		file.failAt = sym.Choose("fail-at-op", 2*nRecords+3)
	}
	sem := make(chan struct{}, nRecords)
	w := NewLogWriter(file, base.DiskFileNum(1), LogWriterConfig{
		QueueSemChan:        sem,
		WriteWALSyncOffsets: func() bool { return true },
	})
	bad := ""
	waiters := make([]*hSyncWaiter, nRecords)
	for i := 0; i < nRecords; i++ {
		wt := &hSyncWaiter{}
		waiters[i] = wt
		var payload []byte
		if bigLast && i == nRecords-1 {
			payload = make([]byte, blockSize)
		} else {
			payload = sym.BytesN("payload", 1+sym.Choose("len", 2))
		}
		sem <- struct{}{} // as commitPipeline.Commit does before a synced write
		wt.wg.Add(1)
		sym.Atomic(func() { wt.queued = file.ops })
		size, _ := w.SyncRecord(payload, &wt.wg, &wt.err)
		wt.end = size
	}
	// The writer waits for its acknowledgements in order (what is durable only grows, so checking
	// when Wait returns is checking a state at or after the acknowledgement), optionally closing first.
	closeFirst := sym.Bool("close-before-waiting")
	var closeErr error
	if closeFirst {
		closeErr = w.Close()
	}
	for _, wt := range waiters {
		wt.wg.Wait()
		sym.Atomic(func() {
			wt.acked = true
			if wt.err == nil && file.synced < wt.end {
				bad = "sync acknowledged before the record was durable"
			}
			if wt.err == nil && file.failed && file.failAt <= wt.queued {
				bad = "record queued after an I/O error acknowledged without error"
			}
		})
	}
	if !closeFirst {
		closeErr = w.Close()
	}
	for _, wt := range waiters {
		sym.Assert(wt.acked, "every-waiter-released")
	}
	sym.Assert(bad != "sync acknowledged before the record was durable", "ack-implies-synced")
	sym.Assert(bad == "", "sync-monitor")
	if closeErr == nil && !file.failed {
		sym.Assert(file.synced == file.written, "close-syncs-everything-written")
		sym.Assert(uint64(file.synced) >= w.syncedOffset.Load(), "recorded-synced-offset-is-durable")
	}
	sym.Reach("synced")
}

func VerifHarness_C20_Conc_SyncAck() { hSyncAck(2, false) }

func VerifHarness_C20_Conc_SyncAckFailure() { hSyncAck(2, true) }

func VerifHarness_C20_Conc_SyncAck3_Thorough() {
	sym.MaxPreempt(2)
	hSyncAck(3, true)
}

// a transient write error on a full block while a tail follows in the same flush
func VerifHarness_C20_Conc_TransientErrorBlockAndTail() {
	sym.MaxPreempt(1)
	hSyncAckX(2, true, true, true)
}
