package bloom

import sym "github.com/cockroachdb/pebble/internal/verifsym"

// VerifHarness_C26_SetThenProbe: one inductive step on arbitrary filter memory.
// After set(h), probe(h) is true, and setting any other hash afterwards keeps it true
// (set only turns bits on) — for every line count, probe count and hash.
func VerifHarness_C26_SetThenProbe() {
	const maxLines = 5
	buf := sym.Block("filter", maxLines*cacheLineSize+5)
	nLines := uint32(sym.Range("nLines", 1, maxLines))
	nProbes := uint32(sym.Range("nProbes", 1, 6))
	h, g := sym.U32("h"), sym.U32("g")
	bits := aliasFilterBits(buf, nLines)
	bits.set(nProbes, h)
	sym.Assert(bits.probe(uint8(nProbes), h), "probe-after-set")
	bits.set(uint32(sym.Range("gProbes", 1, 6)), g)
	sym.Assert(bits.probe(uint8(nProbes), h), "probe-survives-other-sets")
	sym.Reach("set-probe")
}

// hAddHashes feeds the collector the way AddKey does, with the hash values
// themselves as the symbolic inputs: hash() is a pure function of the key, so
// "every added key" is "every added hash value". filler concrete hashes raise
// the line count above one.
func hAddHashes(hc *hashCollector, n, filler int) []uint32 {
	hs := make([]uint32, n)
	for i := range hs {
		hs[i] = sym.U32("hash")
		hc.Add(hs[i])
	}
	for i := 0; i < filler; i++ {
		hc.Add(uint32(0x9e3779b9) * uint32(i+1))
	}
	return hs
}

func hFiller() int { return 0 }

// bits-per-key values: every entry of the probes table, and large values that
// make the filter span several cache lines with only a few keys.
var hBitsPerKey = [...]uint32{1, 2, 3, 4, 5, 6, 7, 8, 9, 10, 11, 16, 20, 100, 300, 700, 2000}

// VerifHarness_C26_WriterNoFalseNegative: every hash added to the table filter
// writer is reported by mayContain on the finished filter, for every
// bits-per-key; the trailer the decoder parses is the one the writer wrote.
func VerifHarness_C26_WriterNoFalseNegative() {
	nk := 2
	if sym.Thorough() {
		nk = 3
	}
	bpk := hBitsPerKey[sym.Choose("bitsPerKey", len(hBitsPerKey))]
	w := newTableFilterWriter(bpk)
	hs := hAddHashes(&w.hc, 1+sym.Choose("nkeys", nk), hFiller())
	nh := w.hc.NumHashes()
	filter, family, ok := w.Finish()
	sym.Assert(ok && family == Family, "filter-built")
	sym.Assert(len(filter) == int(calculateNumLines(nh, bpk))*cacheLineSize+5, "filter-size")
	for _, h := range hs {
		sym.Assert(mayContain(filter, h), "no-false-negative")
	}
	sym.Reach("writer")
}

// VerifHarness_C26_AdaptiveNoFalseNegative: the adaptive writer may decline to
// build a filter, but a filter it builds has no false negatives and respects maxSize.
func VerifHarness_C26_AdaptiveNoFalseNegative() {
	target := hBitsPerKey[sym.Choose("target", len(hBitsPerKey))]
	// quick: sizes around every cache-line boundary; thorough: every size 1..1000 as one symbolic value
	sizes := [...]uint64{5, 6, 68, 69, 70, 132, 133, 134, 196, 197, 198, 260, 261, 325, 389, 1000}
	var maxSize uint64
	if sym.Thorough() {
		maxSize = uint64(sym.Range("maxSize", 1, 1000))
	} else {
		maxSize = sizes[sym.Choose("maxSize", len(sizes))]
	}
	w := newAdaptiveFilterWriter(target, maxSize)
	hs := hAddHashes(&w.hc, 1+sym.Choose("nkeys", 2), hFiller())
	nh := w.hc.NumHashes()
	filter, _, ok := w.Finish()
	if !ok {
		sym.Reach("declined")
		return
	}
	sym.Assert(uint64(len(filter)) <= maxSize || FilterSize(nh, target) <= maxSize, "adaptive-respects-max-size")
	for _, h := range hs {
		sym.Assert(mayContain(filter, h), "no-false-negative")
	}
	sym.Reach("adaptive")
}
