package tombspan

import (
	"github.com/cockroachdb/pebble/internal/base"
	"github.com/cockroachdb/pebble/internal/manifest"
	sym "github.com/cockroachdb/pebble/internal/verifsym"
)

type hWide struct {
	start, end  byte
	pLow, pHigh base.SeqNum // point tombstones (0,0 = none)
	rLow, rHigh base.SeqNum // range-key tombstones
}

func hWideTombstone() (WideTombstone, hWide) {
	var h hWide
	h.start, h.end = sym.U8("start"), sym.U8("end")
	sym.Assume(h.start < h.end)
	if sym.Bool("has-point-tombstones") {
		h.pLow, h.pHigh = base.SeqNum(sym.U8("point-low"))+1, base.SeqNum(sym.U8("point-high"))+1
		sym.Assume(h.pLow <= h.pHigh)
	}
	if sym.Bool("has-range-tombstones") {
		h.rLow, h.rHigh = base.SeqNum(sym.U8("range-low"))+1, base.SeqNum(sym.U8("range-high"))+1
		sym.Assume(h.rLow <= h.rHigh)
	}
	wt := WideTombstone{
		PointSeqNums: base.SeqNumRange{Low: h.pLow, High: h.pHigh},
		RangeSeqNums: base.SeqNumRange{Low: h.rLow, High: h.rHigh},
		Bounds:       base.UserKeyBoundsEndExclusive([]byte{h.start}, []byte{h.end}),
	}
	return wt, h
}

func hMax(a, b base.SeqNum) base.SeqNum { return sym.Ite(a > b, a, b) }

// VerifHarness_C14_TombstonedSpans: delete-only compactions act on what
// UpdateWithEarliestSnapshot records. For wide tombstones with symbolic bounds
// and sequence-number ranges and a symbolic earliest snapshot, at an arbitrary
// probe key the recorded point/range sequence numbers are exactly the
// strongest among the tombstones that cover the key AND lie entirely below the
// earliest snapshot (no snapshot can still see below them); tombstones at or
// above the snapshot stay pending and contribute nothing.
func VerifHarness_C14_TombstonedSpans() { hTombstonedSpans() }

func hTombstonedSpans() {
	n := 1 + sym.Choose("tombstones", 2)
	ts := Make(base.DefaultComparer)
	var hs []hWide
	for i := 0; i < n; i++ {
		wt, h := hWideTombstone()
		ts.AddTombstones(wt)
		hs = append(hs, h)
	}
	earliest := base.SeqNum(sym.U16("earliest-snapshot"))
	ts.UpdateWithEarliestSnapshot(earliest)

	k := sym.U8("probe")
	var gotP, gotR base.SeqNum
	for iv, p := range ts.tombstonedSpans.All() {
		in := sym.And(iv.Start[0] <= k, k < iv.End[0])
		gotP = sym.Ite(in, p.pointSeqNum, gotP)
		gotR = sym.Ite(in, p.rangeSeqNum, gotR)
	}
	var wantP, wantR base.SeqNum
	pendingWant := 0
	for _, h := range hs {
		active := hMax(h.pHigh, h.rHigh) < earliest // wholly in the last snapshot stripe
		covers := sym.And(h.start <= k, k < h.end)
		wantP = sym.Ite(sym.And(active, covers), hMax(wantP, h.pLow), wantP)
		wantR = sym.Ite(sym.And(active, covers), hMax(wantR, h.rLow), wantR)
		if !active {
			pendingWant++
		}
	}
	sym.Assert(gotP == wantP, "point-seqnum-recorded-iff-covered-and-below-every-snapshot")
	sym.Assert(gotR == wantR, "range-seqnum-recorded-iff-covered-and-below-every-snapshot")
	sym.Assert(len(ts.pending) == pendingWant, "others-stay-pending")
	sym.Reach("tombstoned-spans")
}

// VerifHarness_C14_TableEligibility: a table is deleted outright only if the
// tombstone's bounds contain every key of the table's bounds, excised only if
// the tombstone covers the table's first or last key position, and (seqnum
// gate) only if every key kind the table holds is tombstoned at a sequence
// number above everything the table ever contained.
func VerifHarness_C14_TableEligibility() {
	ts, te := sym.U8("tomb-start"), sym.U8("tomb-end")
	bs, be := sym.U8("table-start"), sym.U8("table-end")
	sym.Assume(sym.And(ts < te, bs <= be))
	tableEndIncl := sym.Bool("table-end-inclusive")
	sym.Assume(sym.Or(tableEndIncl, bs < be))
	tomb := base.UserKeyBoundsEndExclusive([]byte{ts}, []byte{te})
	table := base.UserKeyBoundsEndExclusive([]byte{bs}, []byte{be})
	if tableEndIncl {
		table = base.UserKeyBoundsInclusive([]byte{bs}, []byte{be})
	}
	// the caller only asks about tables that overlap the tombstone
	overlap := sym.And(bs < te, sym.Or(ts < be, sym.And(tableEndIncl, ts == be)))
	sym.Assume(overlap)
	e := canDeleteOrExciseTable(base.DefaultComparer.Compare, tomb, table)
	k := sym.U8("probe")
	inTable := sym.And(k >= bs, sym.Or(k < be, sym.And(tableEndIncl, k == be)))
	inTomb := sym.And(k >= ts, k < te)
	if e == tableEligibilityDelete {
		sym.Assert(sym.Implies(inTable, inTomb), "deleted-table-lies-inside-the-tombstone")
	}
	coversStart := sym.And(ts <= bs, bs < te)
	lastInside := sym.Or(sym.And(tableEndIncl, sym.And(ts <= be, be < te)), sym.And(!tableEndIncl, sym.And(ts < be, be <= te)))
	if e == tableEligibilityExcise {
		sym.Assert(sym.Or(coversStart, lastInside), "excise-only-at-a-table-boundary")
	}
	if e == tableEligibilityNone {
		sym.Assert(!sym.And(coversStart, lastInside), "wholly-covered-table-is-not-skipped")
	}

	// the seqnum gate
	var m manifest.TableMetadata
	m.HasPointKeys, m.HasRangeKeys = sym.Bool("has-points"), sym.Bool("has-range-keys")
	m.LargestSeqNumAbsolute = base.SeqNum(sym.U8("largest-seqnum-absolute"))
	sn := tombstoneSeqNums{pointSeqNum: base.SeqNum(sym.U8("point-tombstone")), rangeSeqNum: base.SeqNum(sym.U8("range-tombstone"))}
	want := sym.And(
		sym.Or(!m.HasPointKeys, sym.And(sn.pointSeqNum > 0, m.LargestSeqNumAbsolute < sn.pointSeqNum)),
		sym.Or(!m.HasRangeKeys, sym.And(sn.rangeSeqNum > 0, m.LargestSeqNumAbsolute < sn.rangeSeqNum)))
	sym.Assert(sn.BoundsSeqNums(&m) == want, "table-older-than-every-needed-tombstone")
	sym.Reach("eligibility")
}
