package tombspan

// VerifHarness_C03_TombstonesWaitForSnapshots: a wide tombstone drives
// delete-only compactions only once every one of its tombstones lies below the
// earliest open snapshot (a snapshot at exactly the tombstone's sequence
// number does not see the tombstone and must keep the data it covers).
func VerifHarness_C03_TombstonesWaitForSnapshots() { hTombstonedSpans() }
