package arenaskl

import (
	"sync"

	"github.com/cockroachdb/pebble/internal/base"
	sym "github.com/cockroachdb/pebble/internal/verifsym"
)

type hIns struct {
	key byte
	seq base.SeqNum
	err error
}

func hKeyOf(i hIns) base.InternalKey {
	return base.MakeInternalKey([]byte{i.key}, i.seq, base.InternalKeyKindSet)
}

// hSkiplistInserts: concurrent inserters (the interleaving of their atomic
// operations on the arena and the tower links is a solver-chosen schedule)
// add symbolic keys to a lock-free skiplist that may already hold a key. Every
// insert either succeeds or, for an internal key that is already present or
// won by the other inserter, reports ErrRecordExists; afterwards forward and
// backward traversals return exactly the inserted keys, once each, in order.
func hSkiplistInserts(nThreads int, prePopulate bool) { hSkiplistInsertsK(nThreads, prePopulate, nil) }

// With fixed keys the inserters' keys are concrete (the solver then decides schedules and
// tower heights only): used for the three-inserter instances.
func hSkiplistInsertsK(nThreads int, prePopulate bool, fixed []byte) {
	arena := NewArena(make([]byte, 2048))
	l := NewSkiplist(arena, base.DefaultComparer.Compare)
	var all []hIns
	if prePopulate && fixed != nil {
		// two existing keys bracketing the inserted ones
		for _, k := range []byte{'a', 'z'} {
			p := hIns{key: k, seq: 5}
			sym.Assert(l.Add(hKeyOf(p), []byte{1}) == nil, "sequential-insert")
			all = append(all, p)
		}
	} else if prePopulate {
		p := hIns{key: sym.U8("existing-key"), seq: 5}
		sym.Assume(sym.And(p.key >= 'a', p.key <= 'c'))
		sym.Assert(l.Add(hKeyOf(p), []byte{1}) == nil, "sequential-insert")
		all = append(all, p)
	}
	ins := make([]hIns, nThreads)
	for i := range ins {
		if fixed != nil {
			ins[i].key, ins[i].seq = fixed[i], 5
			continue
		}
		ins[i].key = sym.U8("key")
		sym.Assume(sym.And(ins[i].key >= 'a', ins[i].key <= 'c'))
		ins[i].seq = base.SeqNum(4 + sym.Choose("seq", 2)) // may collide with each other and with the existing key
	}
	var wg sync.WaitGroup
	for i := range ins {
		wg.Add(1)
		go func() {
			defer wg.Done()
			ins[i].err = l.Add(hKeyOf(ins[i]), []byte{byte(10 + i)})
		}()
	}
	wg.Wait()

	// which inserts must have succeeded
	for i := range ins {
		dupOfEarlier := false
		for _, e := range all {
			dupOfEarlier = sym.Or(dupOfEarlier, sym.And(e.key == ins[i].key, e.seq == ins[i].seq))
		}
		if ins[i].err != nil {
			sym.Assert(ins[i].err == ErrRecordExists, "only-duplicate-errors")
			// a failed insert is a duplicate of the existing key or of another inserter's key
			dup := dupOfEarlier
			for j := range ins {
				if j != i {
					dup = sym.Or(dup, sym.And(ins[j].key == ins[i].key, ins[j].seq == ins[i].seq))
				}
			}
			sym.Assert(dup, "insert-fails-only-for-a-duplicate")
		} else {
			sym.Assert(!dupOfEarlier, "duplicate-of-existing-key-is-refused")
			all = append(all, ins[i])
		}
	}
	// two successful inserts never carry the same internal key
	for i := range all {
		for j := 0; j < i; j++ {
			sym.Assert(!sym.And(all[i].key == all[j].key, all[i].seq == all[j].seq), "no-duplicate-inserted-twice")
		}
	}

	// traversals
	it := l.NewIter(base.DefaultComparer.Split, nil, nil)
	var fwd []hIns
	for kv := it.First(); kv != nil; kv = it.Next() {
		sym.Assert(len(kv.K.UserKey) == 1, "key-length")
		fwd = append(fwd, hIns{key: kv.K.UserKey[0], seq: kv.K.SeqNum()})
		sym.Assert(len(fwd) <= len(all), "forward-scan-terminates")
	}
	sym.Assert(len(fwd) == len(all), "forward-scan-returns-every-insert")
	for i := range fwd {
		if i > 0 {
			a, b := fwd[i-1], fwd[i]
			sym.Assert(sym.Or(a.key < b.key, sym.And(a.key == b.key, a.seq > b.seq)), "forward-scan-in-internal-key-order")
		}
		found := false
		for _, e := range all {
			found = sym.Or(found, sym.And(e.key == fwd[i].key, e.seq == fwd[i].seq))
		}
		sym.Assert(found, "scanned-key-was-inserted")
	}
	var bwd []hIns
	for kv := it.Last(); kv != nil; kv = it.Prev() {
		bwd = append(bwd, hIns{key: kv.K.UserKey[0], seq: kv.K.SeqNum()})
		sym.Assert(len(bwd) <= len(all), "backward-scan-terminates")
	}
	sym.Assert(len(bwd) == len(fwd), "backward-scan-same-length")
	if len(bwd) == len(fwd) {
		for i := range bwd {
			o := fwd[len(fwd)-1-i]
			sym.Assert(sym.And(bwd[i].key == o.key, bwd[i].seq == o.seq), "backward-scan-is-the-reverse")
		}
	}
	sym.Reach("inserted")
}

func VerifHarness_C30_Conc_TwoInserters() {
	sym.MaxPreempt(1)
	if sym.Thorough() {
		sym.MaxPreempt(2) // 3 did not finish within 45 minutes
	}
	hSkiplistInserts(2, true)
}

// three inserters between two existing keys (one can be on its retry path while the two others complete)
func VerifHarness_C30_Conc_ThreeInserters() {
	sym.MaxPreempt(2)
	sym.FixRandom() // towers of height 1
	hSkiplistInsertsK(3, true, []byte{'c', 'k', 'g'})
}
