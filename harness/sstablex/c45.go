package sstable

// VerifReaderWithFormat is a Reader that carries nothing but its table format:
// enough to ask the real TryAddBlockPropertyFilterForHideObsoletePoints from a
// harness in another package.
func VerifReaderWithFormat(tf TableFormat) *Reader { return &Reader{tableFormat: tf} }
