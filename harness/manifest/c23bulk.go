package manifest

import (
	"github.com/cockroachdb/pebble/internal/base"
	sym "github.com/cockroachdb/pebble/internal/verifsym"
)

// VerifHarness_C23_BulkEqualsSequential: applying a sequence of version edits
// one at a time yields the same version as accumulating them in one bulk
// edit. The base version holds table 1 in L5 and table 2 in L6; every edit of
// a sequence of 2..3 is drawn from a menu that is valid in the state reached
// so far - mark table 1 (or the new table 3) for compaction, delete it, move
// it one level up, add table 3, delete table 3. The two resulting versions
// must hold the same tables in every level and the same tables marked for
// compaction, and every marked table must be in its level.
func VerifHarness_C23_BulkEqualsSequential() {
	cmp := base.DefaultComparer.Compare
	mk := func(num base.TableNum, lo, hi byte, seq base.SeqNum) *TableMetadata {
		m := &TableMetadata{TableNum: num, Size: 1}
		m.SeqNums.Low, m.SeqNums.High = seq, seq
		m.LargestSeqNumAbsolute = seq
		m.ExtendPointKeyBounds(cmp, base.MakeInternalKey([]byte{lo}, seq, base.InternalKeyKindSet), base.MakeInternalKey([]byte{hi}, seq, base.InternalKeyKindSet))
		m.InitPhysicalBacking()
		return m
	}
	t1, t2, t3 := mk(1, 'a', 'b', 1), mk(2, 'a', 'b', 2), mk(3, 'c', 'd', 3)
	var files [7][]*TableMetadata
	files[5] = []*TableMetadata{t1}
	files[6] = []*TableMetadata{t2}
	base0 := NewVersionForTesting(base.DefaultComparer, NewL0Organizer(base.DefaultComparer, 0), files)

	// the state the sequence has reached (levels of tables 1 and 3; -1 = absent)
	lvl := map[*TableMetadata]int{t1: 5, t3: -1}
	added3 := false
	n := 2 + sym.Choose("edits", 2)
	var edits []*VersionEdit
	for i := 0; i < n; i++ {
		t := t1
		if sym.Bool("on-new-table") {
			t = t3
		}
		ve := &VersionEdit{}
		switch sym.Choose("edit", 4) {
		case 0: // mark for compaction
			sym.Assume(lvl[t] >= 0)
			ve.TablesMarkedForCompaction = []TableMarkedForCompactionEntry{{Level: lvl[t], TableNum: t.TableNum, Meta: t}}
		case 1: // delete
			sym.Assume(lvl[t] >= 0)
			ve.DeletedTables = map[DeletedTableEntry]*TableMetadata{{Level: lvl[t], FileNum: t.TableNum}: t}
			lvl[t] = -1
		case 2: // move one level up
			sym.Assume(lvl[t] >= 4)
			ve.DeletedTables = map[DeletedTableEntry]*TableMetadata{{Level: lvl[t], FileNum: t.TableNum}: t}
			ve.NewTables = []NewTableEntry{{Level: lvl[t] - 1, Meta: t}}
			lvl[t]--
		case 3: // add the new table (table numbers are never reused: a table is added once)
			sym.Assume(t == t3 && !added3)
			added3 = true
			ve.NewTables = []NewTableEntry{{Level: 5, Meta: t}}
			lvl[t] = 5
		}
		edits = append(edits, ve)
	}

	seq := base0
	for _, ve := range edits {
		var b BulkVersionEdit
		sym.Assert(b.Accumulate(ve) == nil, "sequential-accumulate")
		v, err := b.Apply(seq, 0)
		sym.Assert(err == nil, "sequential-apply")
		if err != nil {
			return
		}
		seq = v
	}
	var bulk BulkVersionEdit
	for _, ve := range edits {
		sym.Assert(bulk.Accumulate(ve) == nil, "bulk-accumulate")
	}
	bv, err := bulk.Apply(base0, 0)
	sym.Assert(err == nil, "bulk-apply")
	if err != nil {
		return
	}

	for level := 0; level < NumLevels; level++ {
		var a, b []base.TableNum
		ia, ib := seq.Levels[level].Iter(), bv.Levels[level].Iter()
		for f := ia.First(); f != nil; f = ia.Next() {
			a = append(a, f.TableNum)
		}
		for f := ib.First(); f != nil; f = ib.Next() {
			b = append(b, f.TableNum)
		}
		sym.Assert(len(a) == len(b), "same-tables-in-every-level")
		if len(a) == len(b) {
			for i := range a {
				sym.Assert(a[i] == b[i], "same-tables-in-every-level")
			}
		}
	}
	sym.Assert(seq.MarkedForCompaction.Count() == bv.MarkedForCompaction.Count(), "same-tables-marked-for-compaction")
	for _, t := range []*TableMetadata{t1, t2, t3} {
		for level := 0; level < NumLevels; level++ {
			inSeq, inBulk := seq.MarkedForCompaction.Contains(t, level), bv.MarkedForCompaction.Contains(t, level)
			sym.Assert(inSeq == inBulk, "same-tables-marked-for-compaction")
			if inBulk {
				sym.Assert(lvl[t] == level || t == t2 && level == 6, "marked-table-is-in-its-level")
			}
		}
	}
	sym.Reach("compared")
}
