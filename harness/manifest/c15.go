package manifest

import (
	"github.com/cockroachdb/pebble/internal/base"
	sym "github.com/cockroachdb/pebble/internal/verifsym"
)

type hFileSpec struct {
	lo, hi         byte                    // user keys of the bounds
	loT, hiT       base.InternalKeyTrailer // trailers of the bounds
	seqLow, seqHig base.SeqNum
}

func hFile(i int) (*TableMetadata, hFileSpec) {
	var s hFileSpec
	s.lo, s.hi = sym.U8("smallest"), sym.U8("largest")
	s.loT = base.MakeTrailer(base.SeqNum(sym.U8("smallest-seq")), base.InternalKeyKindSet)
	if sym.Bool("largest-exclusive") {
		s.hiT = base.InternalKeyTrailer(base.InternalKeyRangeDeleteSentinel)
	} else {
		s.hiT = base.MakeTrailer(base.SeqNum(sym.U8("largest-seq")), base.InternalKeyKindSet)
	}
	s.seqLow, s.seqHig = base.SeqNum(sym.U8("seq-low")), base.SeqNum(sym.U8("seq-high"))
	m := &TableMetadata{TableNum: base.TableNum(i + 1), Size: 1}
	m.SeqNums.Low, m.SeqNums.High = s.seqLow, s.seqHig
	m.LargestSeqNumAbsolute = s.seqHig
	m.InitPhysicalBacking()
	m.ExtendPointKeyBounds(base.DefaultComparer.Compare,
		base.InternalKey{UserKey: []byte{s.lo}, Trailer: s.loT}, base.InternalKey{UserKey: []byte{s.hi}, Trailer: s.hiT})
	return m, s
}

// internal-key order on 1-byte user keys: user key ascending, trailer descending
func hIKLess(k1 byte, t1 base.InternalKeyTrailer, k2 byte, t2 base.InternalKeyTrailer) bool {
	return sym.Or(k1 < k2, sym.And(k1 == k2, t1 > t2))
}

// VerifHarness_C15_LevelOrdering: for files listed in any order with symbolic
// bounds, CheckOrdering on a level >= 1 accepts them iff every file is
// internally consistent and consecutive files are sorted and disjoint in
// user-key space (a shared boundary user key only behind an exclusive
// sentinel). Accepting anything else would let overlapping files into a level.
func VerifHarness_C15_LevelOrdering() {
	n := 2 + sym.Choose("files", 2)
	var files []*TableMetadata
	var specs []hFileSpec
	for i := 0; i < n; i++ {
		m, s := hFile(i)
		files = append(files, m)
		specs = append(specs, s)
	}
	ls := NewLevelSliceSpecificOrder(files)
	err := CheckOrdering(base.DefaultComparer, Level(1+sym.Choose("level", 2)), ls.Iter())
	ok := true
	for i, s := range specs {
		// bounds not inverted, seqnum range not inverted
		valid := sym.And(!hIKLess(s.hi, s.hiT, s.lo, s.loT), s.seqLow <= s.seqHig)
		ok = sym.And(ok, valid)
		if i > 0 {
			p := specs[i-1]
			sorted := hIKLess(p.lo, p.loT, s.lo, s.loT)
			disjoint := sym.Or(p.hi < s.lo, sym.And(p.hi == s.lo, p.hiT == base.InternalKeyTrailer(base.InternalKeyRangeDeleteSentinel)))
			ok = sym.And(ok, sym.And(sorted, disjoint))
		}
	}
	sym.Assert((err == nil) == ok, "accepted-iff-sorted-disjoint-and-consistent")
	sym.Reach("level-ordering")
}

// VerifHarness_C15_L0Ordering: CheckOrdering on L0 accepts a file sequence iff
// consecutive files are ordered by (largest seqnum, smallest seqnum), files
// with largest seqnum zero excepted.
func VerifHarness_C15_L0Ordering() {
	n := 2 + sym.Choose("files", 2)
	var files []*TableMetadata
	var specs []hFileSpec
	for i := 0; i < n; i++ {
		m, s := hFile(i)
		files = append(files, m)
		specs = append(specs, s)
	}
	ls := NewLevelSliceSpecificOrder(files)
	err := CheckOrdering(base.DefaultComparer, Level(0), ls.Iter())
	ok := true
	for i := 1; i < n; i++ {
		p, s := specs[i-1], specs[i]
		bothZero := sym.And(p.seqHig == 0, s.seqHig == 0)
		// cmpSeqNum: by High, then Low, then table number (ascending here by construction)
		ordered := sym.Or(p.seqHig < s.seqHig, sym.And(p.seqHig == s.seqHig, p.seqLow <= s.seqLow))
		ok = sym.And(ok, sym.Or(bothZero, ordered))
	}
	sym.Assert((err == nil) == ok, "accepted-iff-seqnum-ordered")
	sym.Reach("l0-ordering")
}
