package manifest

import (
	"bytes"

	"github.com/cockroachdb/pebble/internal/base"
	sym "github.com/cockroachdb/pebble/internal/verifsym"
	"github.com/cockroachdb/pebble/sstable"
)

// hAttachBackings does what manifest replay does after Decode: virtual tables
// get their TableBacking from NewTableEntry.BackingFileNum (Decode documents
// that it leaves it nil).
func hAttachBackings(v *VersionEdit) {
	for i := range v.NewTables {
		nt := &v.NewTables[i]
		if nt.Meta.Virtual && nt.Meta.TableBacking == nil {
			nt.Meta.TableBacking = &TableBacking{DiskFileNum: nt.BackingFileNum}
		}
	}
}

func hKeyEq(a, b base.InternalKey) bool {
	return bytes.Equal(a.UserKey, b.UserKey) && a.Trailer == b.Trailer
}

// hMetaEq compares the wire-visible fields of two table metadatas.
func hMetaEq(a, b *TableMetadata) bool {
	if a.TableNum != b.TableNum || a.Size != b.Size || a.CreationTime != b.CreationTime ||
		a.SeqNums != b.SeqNums || a.Virtual != b.Virtual || a.HasPointKeys != b.HasPointKeys ||
		a.HasRangeKeys != b.HasRangeKeys || a.RangeKeyKinds != b.RangeKeyKinds ||
		a.BlobReferenceDepth != b.BlobReferenceDepth || len(a.BlobReferences) != len(b.BlobReferences) ||
		a.boundTypeSmallest != b.boundTypeSmallest || a.boundTypeLargest != b.boundTypeLargest {
		return false
	}
	for i := range a.BlobReferences {
		if a.BlobReferences[i] != b.BlobReferences[i] {
			return false
		}
	}
	if a.HasPointKeys {
		if !hKeyEq(a.PointKeyBounds.Smallest(), b.PointKeyBounds.Smallest()) || !hKeyEq(a.PointKeyBounds.Largest(), b.PointKeyBounds.Largest()) {
			return false
		}
	}
	if a.HasRangeKeys {
		if !hKeyEq(a.RangeKeyBounds.Smallest(), b.RangeKeyBounds.Smallest()) || !hKeyEq(a.RangeKeyBounds.Largest(), b.RangeKeyBounds.Largest()) {
			return false
		}
	}
	if !bytes.Equal(a.SyntheticPrefixAndSuffix.Prefix(), b.SyntheticPrefixAndSuffix.Prefix()) ||
		!bytes.Equal(a.SyntheticPrefixAndSuffix.Suffix(), b.SyntheticPrefixAndSuffix.Suffix()) {
		return false
	}
	if a.Virtual && a.TableBacking.DiskFileNum != b.TableBacking.DiskFileNum {
		return false
	}
	return true
}

// hEditEq compares every field of two edits that the wire format carries.
func hEditEq(a, b *VersionEdit) bool {
	if a.ComparerName != b.ComparerName || a.MinUnflushedLogNum != b.MinUnflushedLogNum ||
		a.ObsoletePrevLogNum != b.ObsoletePrevLogNum || a.NextFileNum != b.NextFileNum || a.LastSeqNum != b.LastSeqNum {
		return false
	}
	if len(a.DeletedTables) != len(b.DeletedTables) || len(a.NewTables) != len(b.NewTables) ||
		len(a.CreatedBackingTables) != len(b.CreatedBackingTables) || len(a.RemovedBackingTables) != len(b.RemovedBackingTables) ||
		len(a.NewBlobFiles) != len(b.NewBlobFiles) || len(a.DeletedBlobFiles) != len(b.DeletedBlobFiles) ||
		len(a.ExciseBoundsRecord) != len(b.ExciseBoundsRecord) || len(a.TablesMarkedForCompaction) != len(b.TablesMarkedForCompaction) {
		return false
	}
	for k := range a.DeletedTables {
		if _, ok := b.DeletedTables[k]; !ok {
			return false
		}
	}
	for k := range a.DeletedBlobFiles {
		if _, ok := b.DeletedBlobFiles[k]; !ok {
			return false
		}
	}
	for i := range a.NewTables {
		if a.NewTables[i].Level != b.NewTables[i].Level || !hMetaEq(a.NewTables[i].Meta, b.NewTables[i].Meta) {
			return false
		}
	}
	for i := range a.CreatedBackingTables {
		if a.CreatedBackingTables[i].DiskFileNum != b.CreatedBackingTables[i].DiskFileNum || a.CreatedBackingTables[i].Size != b.CreatedBackingTables[i].Size {
			return false
		}
	}
	for i := range a.RemovedBackingTables {
		if a.RemovedBackingTables[i] != b.RemovedBackingTables[i] {
			return false
		}
	}
	for i := range a.NewBlobFiles {
		x, y := a.NewBlobFiles[i], b.NewBlobFiles[i]
		if x.FileID != y.FileID || x.Physical.FileNum != y.Physical.FileNum || x.Physical.Size != y.Physical.Size ||
			x.Physical.ValueSize != y.Physical.ValueSize || x.Physical.CreationTime != y.Physical.CreationTime {
			return false
		}
	}
	for i := range a.ExciseBoundsRecord {
		x, y := a.ExciseBoundsRecord[i], b.ExciseBoundsRecord[i]
		if !bytes.Equal(x.Bounds.Start, y.Bounds.Start) || !bytes.Equal(x.Bounds.End.Key, y.Bounds.End.Key) ||
			x.Bounds.End.Kind != y.Bounds.End.Kind || x.SeqNum != y.SeqNum {
			return false
		}
	}
	for i := range a.TablesMarkedForCompaction {
		if a.TablesMarkedForCompaction[i].Level != b.TablesMarkedForCompaction[i].Level || a.TablesMarkedForCompaction[i].TableNum != b.TablesMarkedForCompaction[i].TableNum {
			return false
		}
	}
	return true
}

// hRoundTrip: v was decoded from arbitrary bytes; its encoding must decode to
// an equal edit, and re-encoding that must give the same bytes.
func hRoundTrip(v *VersionEdit) {
	hAttachBackings(v)
	var b2 bytes.Buffer
	if err := v.Encode(&b2); err != nil {
		// Encode may refuse an edit Decode accepted only for inconsistent bounds markers
		sym.Reach("encode-refused")
		return
	}
	var v2 VersionEdit
	err := v2.Decode(bytes.NewReader(b2.Bytes()))
	sym.Assert(err == nil, "reencoded-edit-decodes")
	if err != nil {
		return
	}
	hAttachBackings(&v2)
	sym.Assert(hEditEq(v, &v2), "decode-encode-decode-equal")
	var b3 bytes.Buffer
	sym.Assert(v2.Encode(&b3) == nil, "second-encode-succeeds")
	sym.Assert(bytes.Equal(b2.Bytes(), b3.Bytes()), "encoding-is-a-fixpoint")
}

// VerifHarness_C23_DecodeArbitrary: decoding arbitrary bytes never panics, and
// whatever it accepts round-trips.
func VerifHarness_C23_DecodeArbitrary() {
	max := 6
	if sym.Thorough() {
		max = 8
	}
	data := sym.Bytes("edit", max)
	sym.NoPanic("decode", func() {
		var v VersionEdit
		err := v.Decode(bytes.NewReader(data))
		if err != nil {
			sym.Reach("rejected")
			return
		}
		hRoundTrip(&v)
		sym.Reach("decoded")
	})
}

// VerifHarness_C23_LongLengths: a bytes-valued field whose varint length is
// seven or more bytes long (>= 2^42) — decode must reject it, not panic.
func VerifHarness_C23_LongLengths() {
	tags := [...]byte{tagComparator, tagExciseBoundsRecord}
	tag := tags[sym.Choose("tag", len(tags))]
	n := 9
	if sym.Thorough() {
		n = 11
	}
	tail := sym.Bytes("tail", n)
	for i := 0; i < 6 && i < len(tail); i++ {
		sym.Assume(tail[i] >= 0x80)
	}
	data := append([]byte{tag}, tail...)
	sym.NoPanic("decode-long-length", func() {
		var v VersionEdit
		err := v.Decode(bytes.NewReader(data))
		if err != nil {
			sym.Reach("rejected")
			return
		}
		sym.Reach("decoded")
	})
}

func hSmall(name string) uint64 {
	v := sym.U8(name)
	sym.Assume(v < 128) // one-byte varint: no case split on the encoded length
	return uint64(v)
}

// hTable builds one new-table entry with symbolic numbers, bounds, sequence numbers and, when
// options is set, every optional per-table field (creation time, virtual + backing, synthetic
// prefix and/or suffix, range keys with or without sets, blob references).
func hTable(v *VersionEdit, options bool) NewTableEntry {
	cmp := base.DefaultComparer.Compare
	m := &TableMetadata{
		TableNum: base.TableNum(sym.U16("table-num")), // 1..3 byte varint
		Size:     hSmall("size") + 1,
	}
	m.SeqNums.Low, m.SeqNums.High = base.SeqNum(hSmall("seq-low")), base.SeqNum(hSmall("seq-high"))
	m.LargestSeqNumAbsolute = m.SeqNums.High
	lo, hi := sym.U8("smallest"), sym.U8("largest")
	sym.Assume(lo <= hi)
	var prefix, suffix []byte
	virtual := false
	if options {
		virtual = sym.Bool("virtual")
		if virtual && sym.Bool("synthetic-prefix") {
			prefix = []byte{sym.U8("prefix-byte")}
		}
		if virtual && sym.Bool("synthetic-suffix") {
			suffix = []byte{sym.U8("suffix-byte")}
		}
	}
	smallestKey, largestKey := append(append([]byte(nil), prefix...), lo), append(append([]byte(nil), prefix...), hi)
	largestTrailer := base.MakeTrailer(base.SeqNum(sym.U8("largest-seq")), base.InternalKeyKindSet)
	if sym.Bool("largest-exclusive") {
		largestTrailer = base.InternalKeyTrailer(base.InternalKeyRangeDeleteSentinel)
	}
	m.ExtendPointKeyBounds(cmp,
		base.InternalKey{UserKey: smallestKey, Trailer: base.MakeTrailer(base.SeqNum(sym.U8("smallest-seq")), base.InternalKeyKindSet)},
		base.InternalKey{UserKey: largestKey, Trailer: largestTrailer})
	nt := NewTableEntry{Level: 6, Meta: m}
	if options {
		if sym.Bool("range-keys") {
			kinds := AnyRangeKeys
			if sym.Bool("no-range-key-sets") {
				kinds = OnlyRangeKeyUnsetAndDelete
			}
			m.ExtendRangeKeyBounds(cmp, kinds,
				base.InternalKey{UserKey: smallestKey, Trailer: base.MakeTrailer(base.SeqNum(sym.U8("rk-seq")), base.InternalKeyKindRangeKeySet)},
				base.MakeExclusiveSentinelKey(base.InternalKeyKindRangeKeySet, largestKey))
		}
		if sym.Bool("creation-time") {
			m.CreationTime = int64(hSmall("creation-time")) + 1
		}
		if sym.Bool("blob-reference") {
			m.BlobReferenceDepth = BlobReferenceDepth(hSmall("blob-depth"))
			m.BlobReferences = BlobReferences{{FileID: base.BlobFileID(hSmall("blob-file-id")), ValueSize: hSmall("blob-value-size")}}
			if virtual {
				m.BlobReferences[0].BackingValueSize = hSmall("blob-backing-value-size")
			}
		}
	}
	if virtual {
		m.Virtual = true
		nt.BackingFileNum = base.DiskFileNum(hSmall("backing-num"))
		m.TableBacking = &TableBacking{DiskFileNum: nt.BackingFileNum, Size: hSmall("backing-size") + 1}
		m.SyntheticPrefixAndSuffix = sstable.MakeSyntheticPrefixAndSuffix(prefix, suffix)
		v.CreatedBackingTables = append(v.CreatedBackingTables, m.TableBacking)
	} else {
		m.InitPhysicalBacking()
	}
	return nt
}

func hEncodeDecode(v *VersionEdit) {
	sym.NoPanic("encode-decode", func() {
		var b bytes.Buffer
		sym.Assert(v.Encode(&b) == nil, "edit-encodes")
		var v2 VersionEdit
		err := v2.Decode(bytes.NewReader(b.Bytes()))
		sym.Assert(err == nil, "encoded-edit-decodes")
		if err != nil {
			return
		}
		hAttachBackings(&v2)
		sym.Assert(hEditEq(v, &v2), "decode-of-encode-equals-the-edit")
		var b2 bytes.Buffer
		sym.Assert(v2.Encode(&b2) == nil, "second-encode-succeeds")
		sym.Assert(bytes.Equal(b.Bytes(), b2.Bytes()), "encoding-is-a-fixpoint")
	})
}

// VerifHarness_C23_EncodeDecodeTable: an edit adding one table with every
// combination of the optional per-table fields encodes to bytes that decode to
// the same edit, and re-encoding is a fixpoint. A second, plain table follows, so
// an entry that is not properly terminated corrupts what comes after it.
func VerifHarness_C23_EncodeDecodeTable() {
	var v VersionEdit
	v.NewTables = append(v.NewTables, hTable(&v, true))
	if sym.Bool("second-table") {
		m := &TableMetadata{TableNum: 9, Size: 1}
		m.ExtendPointKeyBounds(base.DefaultComparer.Compare, base.MakeInternalKey([]byte{'x'}, 1, base.InternalKeyKindSet), base.MakeInternalKey([]byte{'y'}, 1, base.InternalKeyKindSet))
		m.InitPhysicalBacking()
		v.NewTables = append(v.NewTables, NewTableEntry{Level: 5, Meta: m})
	}
	hEncodeDecode(&v)
	sym.Reach("table")
}

// VerifHarness_C23_EncodeDecodeEdit: the edit-level fields - scalars, deleted
// tables, created and removed backings, a blob file, an excise record, a
// compaction mark - around a plain new table.
func VerifHarness_C23_EncodeDecodeEdit() {
	var v VersionEdit
	if sym.Bool("scalars") {
		v.MinUnflushedLogNum = base.DiskFileNum(sym.U16("min-unflushed-log"))
		v.NextFileNum = hSmall("next-file-num")
		v.LastSeqNum = base.SeqNum(hSmall("last-seqnum"))
	}
	v.NewTables = append(v.NewTables, hTable(&v, false))
	if sym.Bool("deleted-table") {
		v.DeletedTables = map[DeletedTableEntry]*TableMetadata{{Level: 6, FileNum: base.TableNum(hSmall("deleted-num"))}: nil}
	}
	if sym.Bool("removed-backing") {
		v.RemovedBackingTables = []base.DiskFileNum{base.DiskFileNum(hSmall("removed-backing"))}
	}
	if sym.Bool("blob-file") {
		v.NewBlobFiles = []BlobFileMetadata{{FileID: base.BlobFileID(hSmall("blob-id")), Physical: &PhysicalBlobFile{
			FileNum: base.DiskFileNum(hSmall("blob-file-num")), Size: hSmall("blob-size"), ValueSize: hSmall("blob-value-size"), CreationTime: hSmall("blob-creation-time"),
		}}}
	}
	if sym.Bool("excise") {
		v.ExciseBoundsRecord = []ExciseOpEntry{{Bounds: base.UserKeyBoundsEndExclusive([]byte{sym.U8("excise-start")}, []byte{sym.U8("excise-end")}), SeqNum: base.SeqNum(hSmall("excise-seq"))}}
	}
	hEncodeDecode(&v)
	sym.Reach("edit")
}
