package manifest

import (
	"bytes"

	"github.com/cockroachdb/pebble/internal/base"
	sym "github.com/cockroachdb/pebble/internal/verifsym"
)

// hAttachBackings does what manifest replay does after Decode: virtual tables
// get their TableBacking from NewTableEntry.BackingFileNum (Decode documents
// that it leaves it nil).
func hAttachBackings(v *VersionEdit) {
	for i := range v.NewTables {
		nt := &v.NewTables[i]
		if nt.Meta.Virtual && nt.Meta.TableBacking == nil {
			nt.Meta.TableBacking = &TableBacking{DiskFileNum: nt.BackingFileNum}
		}
	}
}

func hKeyEq(a, b base.InternalKey) bool {
	return bytes.Equal(a.UserKey, b.UserKey) && a.Trailer == b.Trailer
}

// hMetaEq compares the wire-visible fields of two table metadatas.
func hMetaEq(a, b *TableMetadata) bool {
	if a.TableNum != b.TableNum || a.Size != b.Size || a.CreationTime != b.CreationTime ||
		a.SeqNums != b.SeqNums || a.Virtual != b.Virtual || a.HasPointKeys != b.HasPointKeys ||
		a.HasRangeKeys != b.HasRangeKeys || a.RangeKeyKinds != b.RangeKeyKinds ||
		a.BlobReferenceDepth != b.BlobReferenceDepth || len(a.BlobReferences) != len(b.BlobReferences) ||
		a.boundTypeSmallest != b.boundTypeSmallest || a.boundTypeLargest != b.boundTypeLargest {
		return false
	}
	for i := range a.BlobReferences {
		if a.BlobReferences[i] != b.BlobReferences[i] {
			return false
		}
	}
	if a.HasPointKeys {
		if !hKeyEq(a.PointKeyBounds.Smallest(), b.PointKeyBounds.Smallest()) || !hKeyEq(a.PointKeyBounds.Largest(), b.PointKeyBounds.Largest()) {
			return false
		}
	}
	if a.HasRangeKeys {
		if !hKeyEq(a.RangeKeyBounds.Smallest(), b.RangeKeyBounds.Smallest()) || !hKeyEq(a.RangeKeyBounds.Largest(), b.RangeKeyBounds.Largest()) {
			return false
		}
	}
	if !bytes.Equal(a.SyntheticPrefixAndSuffix.Prefix(), b.SyntheticPrefixAndSuffix.Prefix()) ||
		!bytes.Equal(a.SyntheticPrefixAndSuffix.Suffix(), b.SyntheticPrefixAndSuffix.Suffix()) {
		return false
	}
	if a.Virtual && a.TableBacking.DiskFileNum != b.TableBacking.DiskFileNum {
		return false
	}
	return true
}

// hEditEq compares every field of two edits that the wire format carries.
func hEditEq(a, b *VersionEdit) bool {
	if a.ComparerName != b.ComparerName || a.MinUnflushedLogNum != b.MinUnflushedLogNum ||
		a.ObsoletePrevLogNum != b.ObsoletePrevLogNum || a.NextFileNum != b.NextFileNum || a.LastSeqNum != b.LastSeqNum {
		return false
	}
	if len(a.DeletedTables) != len(b.DeletedTables) || len(a.NewTables) != len(b.NewTables) ||
		len(a.CreatedBackingTables) != len(b.CreatedBackingTables) || len(a.RemovedBackingTables) != len(b.RemovedBackingTables) ||
		len(a.NewBlobFiles) != len(b.NewBlobFiles) || len(a.DeletedBlobFiles) != len(b.DeletedBlobFiles) ||
		len(a.ExciseBoundsRecord) != len(b.ExciseBoundsRecord) || len(a.TablesMarkedForCompaction) != len(b.TablesMarkedForCompaction) {
		return false
	}
	for k := range a.DeletedTables {
		if _, ok := b.DeletedTables[k]; !ok {
			return false
		}
	}
	for k := range a.DeletedBlobFiles {
		if _, ok := b.DeletedBlobFiles[k]; !ok {
			return false
		}
	}
	for i := range a.NewTables {
		if a.NewTables[i].Level != b.NewTables[i].Level || !hMetaEq(a.NewTables[i].Meta, b.NewTables[i].Meta) {
			return false
		}
	}
	for i := range a.CreatedBackingTables {
		if a.CreatedBackingTables[i].DiskFileNum != b.CreatedBackingTables[i].DiskFileNum || a.CreatedBackingTables[i].Size != b.CreatedBackingTables[i].Size {
			return false
		}
	}
	for i := range a.RemovedBackingTables {
		if a.RemovedBackingTables[i] != b.RemovedBackingTables[i] {
			return false
		}
	}
	for i := range a.NewBlobFiles {
		x, y := a.NewBlobFiles[i], b.NewBlobFiles[i]
		if x.FileID != y.FileID || x.Physical.FileNum != y.Physical.FileNum || x.Physical.Size != y.Physical.Size ||
			x.Physical.ValueSize != y.Physical.ValueSize || x.Physical.CreationTime != y.Physical.CreationTime {
			return false
		}
	}
	for i := range a.ExciseBoundsRecord {
		x, y := a.ExciseBoundsRecord[i], b.ExciseBoundsRecord[i]
		if !bytes.Equal(x.Bounds.Start, y.Bounds.Start) || !bytes.Equal(x.Bounds.End.Key, y.Bounds.End.Key) ||
			x.Bounds.End.Kind != y.Bounds.End.Kind || x.SeqNum != y.SeqNum {
			return false
		}
	}
	for i := range a.TablesMarkedForCompaction {
		if a.TablesMarkedForCompaction[i].Level != b.TablesMarkedForCompaction[i].Level || a.TablesMarkedForCompaction[i].TableNum != b.TablesMarkedForCompaction[i].TableNum {
			return false
		}
	}
	return true
}

// hRoundTrip: v was decoded from arbitrary bytes; its encoding must decode to
// an equal edit, and re-encoding that must give the same bytes.
func hRoundTrip(v *VersionEdit) {
	hAttachBackings(v)
	var b2 bytes.Buffer
	if err := v.Encode(&b2); err != nil {
		// Encode may refuse an edit Decode accepted only for inconsistent bounds markers
		sym.Reach("encode-refused")
		return
	}
	var v2 VersionEdit
	err := v2.Decode(bytes.NewReader(b2.Bytes()))
	sym.Assert(err == nil, "reencoded-edit-decodes")
	if err != nil {
		return
	}
	hAttachBackings(&v2)
	sym.Assert(hEditEq(v, &v2), "decode-encode-decode-equal")
	var b3 bytes.Buffer
	sym.Assert(v2.Encode(&b3) == nil, "second-encode-succeeds")
	sym.Assert(bytes.Equal(b2.Bytes(), b3.Bytes()), "encoding-is-a-fixpoint")
}

// VerifHarness_C23_DecodeArbitrary: decoding arbitrary bytes never panics, and
// whatever it accepts round-trips.
func VerifHarness_C23_DecodeArbitrary() {
	max := 6
	if sym.Thorough() {
		max = 8
	}
	data := sym.Bytes("edit", max)
	sym.NoPanic("decode", func() {
		var v VersionEdit
		err := v.Decode(bytes.NewReader(data))
		if err != nil {
			sym.Reach("rejected")
			return
		}
		hRoundTrip(&v)
		sym.Reach("decoded")
	})
}

// VerifHarness_C23_LongLengths: a bytes-valued field whose varint length is
// seven or more bytes long (>= 2^42) — decode must reject it, not panic.
func VerifHarness_C23_LongLengths() {
	tags := [...]byte{tagComparator, tagExciseBoundsRecord}
	tag := tags[sym.Choose("tag", len(tags))]
	n := 9
	if sym.Thorough() {
		n = 11
	}
	tail := sym.Bytes("tail", n)
	for i := 0; i < 6 && i < len(tail); i++ {
		sym.Assume(tail[i] >= 0x80)
	}
	data := append([]byte{tag}, tail...)
	sym.NoPanic("decode-long-length", func() {
		var v VersionEdit
		err := v.Decode(bytes.NewReader(data))
		if err != nil {
			sym.Reach("rejected")
			return
		}
		sym.Reach("decoded")
	})
}
