package manifest

import (
	"github.com/cockroachdb/pebble/internal/base"
	sym "github.com/cockroachdb/pebble/internal/verifsym"
)

type hL0Spec struct {
	lo, hi    byte
	exclusive bool // the largest key is an exclusive sentinel
}

// hL0Files draws n L0 files in seqnum order (file i carries seqnum i+1) with
// symbolic 1-byte bounds.
func hL0Files(n int) ([]*TableMetadata, []hL0Spec) { return hL0FilesX(n, true) }

func hL0FilesX(n int, exclusiveEnds bool) ([]*TableMetadata, []hL0Spec) {
	var files []*TableMetadata
	var specs []hL0Spec
	for i := 0; i < n; i++ {
		var s hL0Spec
		s.lo, s.hi = sym.U8("smallest"), sym.U8("largest")
		s.exclusive = exclusiveEnds && sym.Bool("largest-exclusive")
		sym.Assume(sym.Or(s.lo < s.hi, sym.And(s.lo == s.hi, !s.exclusive)))
		m := &TableMetadata{TableNum: base.TableNum(i + 1), Size: 100}
		m.SeqNums.Low, m.SeqNums.High = base.SeqNum(i+1), base.SeqNum(i+1)
		m.LargestSeqNumAbsolute = m.SeqNums.High
		largest := base.MakeInternalKey([]byte{s.hi}, base.SeqNum(i+1), base.InternalKeyKindSet)
		if s.exclusive {
			largest = base.MakeExclusiveSentinelKey(base.InternalKeyKindRangeDelete, []byte{s.hi})
		}
		m.ExtendPointKeyBounds(base.DefaultComparer.Compare, base.MakeInternalKey([]byte{s.lo}, base.SeqNum(i+1), base.InternalKeyKindSet), largest)
		m.InitPhysicalBacking()
		files = append(files, m)
		specs = append(specs, s)
	}
	return files, specs
}

// two files overlap in user-key space
func hOverlap(a, b hL0Spec) bool {
	aBeforeB := sym.Or(a.hi < b.lo, sym.And(a.hi == b.lo, a.exclusive))
	bBeforeA := sym.Or(b.hi < a.lo, sym.And(b.hi == a.lo, b.exclusive))
	return !sym.Or(aBeforeB, bBeforeA)
}

func hCheckSublevels(s *l0Sublevels, files []*TableMetadata, specs []hL0Spec, tag string) {
	for j := range files {
		sj := s.state(files[j]).subLevel
		sym.Assert(sj >= 0 && sj < len(s.levelFiles), tag+"-sublevel-in-range")
		// minimal: directly above the highest sublevel among the older files it overlaps
		want := 0
		for i := 0; i < j; i++ {
			si := s.state(files[i]).subLevel
			ov := hOverlap(specs[i], specs[j])
			sym.Assert(sym.Implies(ov, si < sj), tag+"-overlapping-newer-file-is-in-a-higher-sublevel")
			want = sym.Ite(sym.And(ov, si+1 > want), si+1, want)
		}
		sym.Assert(sj == want, tag+"-sublevel-is-the-lowest-possible")
	}
	// the per-sublevel slices hold exactly the files of the sublevel, in key order, disjoint
	total := 0
	for lv, ls := range s.Levels {
		var prev *TableMetadata
		for f := range ls.All() {
			total++
			sym.Assert(s.state(f).subLevel == lv, tag+"-slice-holds-its-sublevel")
			if prev != nil {
				pi, fi := int(prev.TableNum)-1, int(f.TableNum)-1
				sym.Assert(!hOverlap(specs[pi], specs[fi]), tag+"-files-of-a-sublevel-are-disjoint")
				sym.Assert(specs[pi].lo <= specs[fi].lo, tag+"-sublevel-in-key-order")
			}
			prev = f
		}
	}
	sym.Assert(total == len(files), tag+"-every-file-in-exactly-one-sublevel")
}

// VerifHarness_C16_Sublevels: for L0 files with symbolic bounds, files that
// overlap are in distinct sublevels ordered by age, each file sits in the
// lowest sublevel that allows, files of one sublevel are disjoint and key
// ordered; and adding the newest file incrementally (addL0Files) gives the
// same sublevel assignment as rebuilding from scratch.
func VerifHarness_C16_Sublevels() { hSublevels(2+sym.Choose("files", 2), true) }

// four files, inclusive bounds only
func VerifHarness_C16_Sublevels4_Thorough() { hSublevels(4, false) }

func hSublevels(n int, exclusiveEnds bool) {
	files, specs := hL0FilesX(n, exclusiveEnds)
	cmp := base.DefaultComparer.Compare
	lmAll := MakeLevelMetadata(cmp, 0, files)
	all, err := newL0Sublevels(&lmAll, cmp, base.DefaultFormatter, 1<<20)
	sym.Assert(err == nil, "sublevels-built")
	if err != nil {
		return
	}
	hCheckSublevels(all, files, specs, "rebuilt")

	// the newest one or two files are added in one incremental batch
	k := 1
	if n >= 3 {
		k = 1 + sym.Choose("added-in-one-batch", 2)
	}
	lmPrefix := MakeLevelMetadata(cmp, 0, files[:n-k])
	prefix, err := newL0Sublevels(&lmPrefix, cmp, base.DefaultFormatter, 1<<20)
	sym.Assert(err == nil, "prefix-sublevels-built")
	if err != nil {
		return
	}
	added := map[base.TableNum]*TableMetadata{}
	for _, f := range files[n-k:] {
		added[f.TableNum] = f
	}
	order, ok := prefix.canUseAddL0Files(added, &lmAll)
	sym.Assert(ok && len(order) == k, "incremental-add-allowed-for-the-newest-files")
	if !ok {
		return
	}
	inc := prefix.addL0Files(order, 1<<20, &lmAll)
	hCheckSublevels(inc, files, specs, "incremental")
	for _, f := range files {
		sym.Assert(inc.state(f).subLevel == all.state(f).subLevel, "incremental-equals-rebuild")
	}
	sym.Reach("sublevels")
}

type hNopLogger struct{ errs int }

func (l *hNopLogger) Infof(format string, args ...interface{})  {}
func (l *hNopLogger) Errorf(format string, args ...interface{}) { l.errs++ }
func (l *hNopLogger) Fatalf(format string, args ...interface{}) { l.errs++ }

// VerifHarness_C16_Picks: every compaction the L0 pickers choose is closed. A
// base (L0 -> Lbase) pick contains every older file that overlaps one of its
// files; an intra-L0 pick never leaves out a file that overlaps one of its
// files and lies, in age, between members of the pick; no pick contains a file
// that is already compacting; and the repo's own checkCompaction accepts it.
func VerifHarness_C16_Picks() {
	n := 2 + sym.Choose("files", 2)
	files, specs := hL0FilesX(n, sym.Thorough())
	cmp := base.DefaultComparer.Compare
	// compacting markings: none; the newest file in an intra-L0 compaction (as when another
	// interval's intra-L0 pick pulled in a wide file); the oldest file in a base compaction;
	// thorough: any one file, either way
	switch sym.Choose("compacting", 3) {
	case 1:
		files[n-1].CompactionState = CompactionStateCompacting
		files[n-1].IsIntraL0Compacting = true
	case 2:
		files[0].CompactionState = CompactionStateCompacting
	}
	if sym.Thorough() {
		if k := sym.Choose("also-compacting", n+1); k < n {
			files[k].CompactionState = CompactionStateCompacting
			files[k].IsIntraL0Compacting = sym.Bool("intra-l0-compacting")
		}
	}
	lm := MakeLevelMetadata(cmp, 0, files)
	s, err := newL0Sublevels(&lm, cmp, base.DefaultFormatter, 1<<20)
	sym.Assert(err == nil, "sublevels-built")
	if err != nil {
		return
	}
	s.InitCompactingFileInfo(nil)
	logger := &hNopLogger{}
	var c *L0CompactionFiles
	intra := sym.Bool("intra-l0")
	if intra {
		c = s.PickIntraL0Compaction(base.SeqNum(n+1), 2, nil)
	} else {
		c = s.PickBaseCompaction(logger, 1, LevelSlice{}, 6, nil)
	}
	sym.Assert(logger.errs == 0, "picker-logged-no-internal-error")
	if c == nil {
		sym.Reach("no-pick")
		return
	}
	sym.Assert(len(c.Files) > 0, "pick-is-not-empty")
	sym.Assert(s.checkCompaction(c) == nil, "repo-checkCompaction-accepts-the-pick")
	in := make([]bool, n)
	for _, f := range c.Files {
		i := int(f.TableNum) - 1
		sym.Assert(!in[i], "no-file-twice")
		in[i] = true
		sym.Assert(!f.IsCompacting(), "pick-contains-no-compacting-file")
	}
	newest := 0
	for i := range in {
		if in[i] {
			newest = i
		}
	}
	for g := 0; g < n; g++ {
		if in[g] {
			continue
		}
		for f := 0; f < n; f++ {
			if !in[f] {
				continue
			}
			ov := hOverlap(specs[f], specs[g])
			if !intra {
				// base pick: an overlapping file left out must be newer than the member it overlaps
				sym.Assert(sym.Implies(ov, g > f), "base-pick-takes-every-older-overlapping-file")
			} else if g > f {
				// intra-L0 pick: a left-out file newer than an overlapping member is newer than the whole pick
				sym.Assert(sym.Implies(ov, g > newest), "intra-l0-pick-has-no-hole")
			}
		}
	}
	sym.Reach("pick")
}

// VerifHarness_C16_BaseExtend: a base pick that the compaction picker then
// widens (ExtendL0ForBaseCompactionTo, between the user keys of the
// neighbouring Lbase files; each side symbolic or unbounded) is still closed:
// an overlapping L0 file left out of the widened pick is newer than the
// member it overlaps, no file is taken twice or while compacting, and the
// widened pick stays strictly between the given keys.
func VerifHarness_C16_BaseExtend() {
	files, specs := hL0FilesX(3, false)
	hBaseExtend(files, specs)
}

func hBaseExtend(files []*TableMetadata, specs []hL0Spec) {
	n := len(files)
	cmp := base.DefaultComparer.Compare
	lm := MakeLevelMetadata(cmp, 0, files)
	s, err := newL0Sublevels(&lm, cmp, base.DefaultFormatter, 1<<20)
	sym.Assert(err == nil, "sublevels-built")
	if err != nil {
		return
	}
	s.InitCompactingFileInfo(nil)
	logger := &hNopLogger{}
	c := s.PickBaseCompaction(logger, 1, LevelSlice{}, 6, nil)
	sym.Assert(logger.errs == 0, "picker-logged-no-internal-error")
	if c == nil {
		sym.Reach("no-pick")
		return
	}
	smallest, largest := base.InvalidInternalKey, base.InvalidInternalKey
	lo, hi := byte(0), byte(255)
	loSet, hiSet := sym.Bool("bounded-below"), sym.Bool("bounded-above")
	if loSet {
		lo = sym.U8("below")
		smallest = base.MakeInternalKey([]byte{lo}, 1, base.InternalKeyKindSet)
	}
	if hiSet {
		hi = sym.U8("above")
		largest = base.MakeInternalKey([]byte{hi}, 1, base.InternalKeyKindSet)
	}
	// the keys come from the Lbase files next to the ones the pick overlaps: they lie strictly
	// outside the pick's own key range (a file holding a key inside it would be part of the
	// compaction)
	inBefore := make([]bool, n)
	for _, f := range c.Files {
		k := int(f.TableNum) - 1
		inBefore[k] = true
		sym.Assume(sym.Or(!loSet, lo < specs[k].lo))
		sym.Assume(sym.Or(!hiSet, hi > specs[k].hi))
	}
	before := len(c.Files)
	s.ExtendL0ForBaseCompactionTo(smallest, largest, c)
	sym.Assert(len(c.Files) >= before, "widening-only-adds")
	sym.Assert(s.checkCompaction(c) == nil, "repo-checkCompaction-accepts-the-pick")
	in := make([]bool, n)
	for _, f := range c.Files {
		k := int(f.TableNum) - 1
		sym.Assert(!in[k], "no-file-twice")
		in[k] = true
		sym.Assert(!f.IsCompacting(), "pick-contains-no-compacting-file")
		if !inBefore[k] { // a file added by the widening does not touch the given keys
			sym.Assert(sym.Or(!loSet, specs[k].lo > lo), "added-file-above-the-lower-key")
			sym.Assert(sym.Or(!hiSet, specs[k].hi < hi), "added-file-below-the-upper-key")
		}
	}
	for k := range inBefore {
		sym.Assert(!inBefore[k] || in[k], "widening-only-adds")
	}
	for g := 0; g < n; g++ {
		if in[g] {
			continue
		}
		for f := 0; f < n; f++ {
			if in[f] {
				sym.Assert(sym.Implies(hOverlap(specs[f], specs[g]), g > f), "base-pick-takes-every-older-overlapping-file")
			}
		}
	}
	sym.Reach("extended")
}

// ... around a deep stack: three fixed files [m,p] (the deepest stack, so the seed of the pick)
// among two files with symbolic bounds below them - the widening then has to decide about
// files that stick out of the rectangle or share one boundary key with a file that does.
func VerifHarness_C16_BaseExtendAroundStack() {
	files, specs := hL0FilesX(5, false)
	for _, k := range []int{1, 3, 4} {
		sym.Assume(sym.And(specs[k].lo == 'm', specs[k].hi == 'p'))
	}
	for _, k := range []int{0, 2} {
		sym.Assume(sym.And(specs[k].lo >= 'a', specs[k].hi < 'm'))
	}
	hBaseExtend(files, specs)
}
