package manifest

import (
	"github.com/cockroachdb/pebble/internal/base"
	sym "github.com/cockroachdb/pebble/internal/verifsym"
)

type hL0Spec struct {
	lo, hi    byte
	exclusive bool // the largest key is an exclusive sentinel
}

// hL0Files draws n L0 files in seqnum order (file i carries seqnum i+1) with
// symbolic 1-byte bounds.
func hL0Files(n int) ([]*TableMetadata, []hL0Spec) {
	var files []*TableMetadata
	var specs []hL0Spec
	for i := 0; i < n; i++ {
		var s hL0Spec
		s.lo, s.hi = sym.U8("smallest"), sym.U8("largest")
		s.exclusive = sym.Bool("largest-exclusive")
		sym.Assume(sym.Or(s.lo < s.hi, sym.And(s.lo == s.hi, !s.exclusive)))
		m := &TableMetadata{TableNum: base.TableNum(i + 1), Size: 100}
		m.SeqNums.Low, m.SeqNums.High = base.SeqNum(i+1), base.SeqNum(i+1)
		m.LargestSeqNumAbsolute = m.SeqNums.High
		largest := base.MakeInternalKey([]byte{s.hi}, base.SeqNum(i+1), base.InternalKeyKindSet)
		if s.exclusive {
			largest = base.MakeExclusiveSentinelKey(base.InternalKeyKindRangeDelete, []byte{s.hi})
		}
		m.ExtendPointKeyBounds(base.DefaultComparer.Compare, base.MakeInternalKey([]byte{s.lo}, base.SeqNum(i+1), base.InternalKeyKindSet), largest)
		m.InitPhysicalBacking()
		files = append(files, m)
		specs = append(specs, s)
	}
	return files, specs
}

// two files overlap in user-key space
func hOverlap(a, b hL0Spec) bool {
	aBeforeB := sym.Or(a.hi < b.lo, sym.And(a.hi == b.lo, a.exclusive))
	bBeforeA := sym.Or(b.hi < a.lo, sym.And(b.hi == a.lo, b.exclusive))
	return !sym.Or(aBeforeB, bBeforeA)
}

func hCheckSublevels(s *l0Sublevels, files []*TableMetadata, specs []hL0Spec, tag string) {
	for j := range files {
		sj := s.state(files[j]).subLevel
		sym.Assert(sj >= 0 && sj < len(s.levelFiles), tag+"-sublevel-in-range")
		// minimal: directly above the highest sublevel among the older files it overlaps
		want := 0
		for i := 0; i < j; i++ {
			si := s.state(files[i]).subLevel
			ov := hOverlap(specs[i], specs[j])
			sym.Assert(sym.Implies(ov, si < sj), tag+"-overlapping-newer-file-is-in-a-higher-sublevel")
			want = sym.Ite(sym.And(ov, si+1 > want), si+1, want)
		}
		sym.Assert(sj == want, tag+"-sublevel-is-the-lowest-possible")
	}
	// the per-sublevel slices hold exactly the files of the sublevel, in key order, disjoint
	total := 0
	for lv, ls := range s.Levels {
		var prev *TableMetadata
		for f := range ls.All() {
			total++
			sym.Assert(s.state(f).subLevel == lv, tag+"-slice-holds-its-sublevel")
			if prev != nil {
				pi, fi := int(prev.TableNum)-1, int(f.TableNum)-1
				sym.Assert(!hOverlap(specs[pi], specs[fi]), tag+"-files-of-a-sublevel-are-disjoint")
				sym.Assert(specs[pi].lo <= specs[fi].lo, tag+"-sublevel-in-key-order")
			}
			prev = f
		}
	}
	sym.Assert(total == len(files), tag+"-every-file-in-exactly-one-sublevel")
}

// VerifHarness_C16_Sublevels: for L0 files with symbolic bounds, files that
// overlap are in distinct sublevels ordered by age, each file sits in the
// lowest sublevel that allows, files of one sublevel are disjoint and key
// ordered; and adding the newest file incrementally (addL0Files) gives the
// same sublevel assignment as rebuilding from scratch.
func VerifHarness_C16_Sublevels() {
	n := 2 + sym.Choose("files", 2)
	if sym.Thorough() {
		n = 4
	}
	files, specs := hL0Files(n)
	cmp := base.DefaultComparer.Compare
	lmAll := MakeLevelMetadata(cmp, 0, files)
	all, err := newL0Sublevels(&lmAll, cmp, base.DefaultFormatter, 1<<20)
	sym.Assert(err == nil, "sublevels-built")
	if err != nil {
		return
	}
	hCheckSublevels(all, files, specs, "rebuilt")

	lmPrefix := MakeLevelMetadata(cmp, 0, files[:n-1])
	prefix, err := newL0Sublevels(&lmPrefix, cmp, base.DefaultFormatter, 1<<20)
	sym.Assert(err == nil, "prefix-sublevels-built")
	if err != nil {
		return
	}
	added := map[base.TableNum]*TableMetadata{files[n-1].TableNum: files[n-1]}
	order, ok := prefix.canUseAddL0Files(added, &lmAll)
	sym.Assert(ok && len(order) == 1, "incremental-add-allowed-for-the-newest-file")
	if !ok {
		return
	}
	inc := prefix.addL0Files(order, 1<<20, &lmAll)
	hCheckSublevels(inc, files, specs, "incremental")
	for _, f := range files {
		sym.Assert(inc.state(f).subLevel == all.state(f).subLevel, "incremental-equals-rebuild")
	}
	sym.Reach("sublevels")
}
