package rangekeystack

import (
	"github.com/cockroachdb/pebble/internal/base"
	"github.com/cockroachdb/pebble/internal/keyspan"
	sym "github.com/cockroachdb/pebble/internal/verifsym"
)

const (
	hSet   = base.InternalKeyKindRangeKeySet
	hUnset = base.InternalKeyKindRangeKeyUnset
	hDel   = base.InternalKeyKindRangeKeyDelete
)

// one range-key operation of the history, in commit order (seq = position + 1)
type hOp struct {
	kind       base.InternalKeyKind // concrete per path (case split when the spans are built)
	start, end byte                 // symbolic, [start, end)
	suffix     int                  // 0 = no suffix, 1.. = suffix byte value (concrete)
	val        byte                 // symbolic
	seq        base.SeqNum
	level      int
}

const hNSuffix = 3 // suffix slots: none, 1, 2

func hSuffixBytes(s int) []byte {
	if s == 0 {
		return nil
	}
	return []byte{byte(s)}
}

// hRangeKeys: a commit-ordered history of RangeKeySet/Unset/Delete placed into
// levels (each level fragmented by the real Fragmenter) is read through the
// real user range-key stack (merging + coalescing transform + bounds +
// defragmentation). At an arbitrary probe key the reported (suffix, value)
// set equals the sequential model's, and reported spans are maximal: two
// abutting spans never carry the same set.
func hRangeKeys(N, L int, bounded bool) {
	n := 1 + sym.Choose("n", N)
	var h []hOp
	for i := 0; i < n; i++ {
		op := hOp{start: sym.U8("start"), end: sym.U8("end"), val: sym.U8("val"), seq: base.SeqNum(i + 1)}
		sym.Assume(sym.And(sym.And(op.start >= 'a', op.start < op.end), op.end <= 'e'))
		switch sym.Choose("kind", 3) {
		case 0:
			op.kind = hSet
			op.suffix = sym.Choose("suffix", hNSuffix)
		case 1:
			op.kind = hUnset
			op.suffix = sym.Choose("suffix", hNSuffix)
		default:
			op.kind = hDel
		}
		h = append(h, op)
	}
	c1 := base.SeqNum(n)
	if L > 1 {
		c1 = base.SeqNum(sym.Choose("c1", n+1)) // seq > c1 -> level 0 (newer), else level 1
	}
	snapshot := base.SeqNum(sym.Range("snapshot", 1, n+1))

	cmp := base.DefaultComparer.Compare
	var iters []keyspan.FragmentIterator
	for lv := 0; lv < L; lv++ {
		var mine []hOp
		for _, op := range h {
			inUpper := op.seq > c1
			if (lv == 0) == inUpper || L == 1 {
				mine = append(mine, op)
			}
		}
		for i := 1; i < len(mine); i++ { // the fragmenter wants spans sorted by start
			for j := i; j > 0 && mine[j].start < mine[j-1].start; j-- {
				mine[j], mine[j-1] = mine[j-1], mine[j]
			}
		}
		var spans []keyspan.Span
		frag := keyspan.Fragmenter{Cmp: cmp, Format: base.DefaultFormatter, Emit: func(s keyspan.Span) { spans = append(spans, s.Clone()) }}
		for _, op := range mine {
			k := keyspan.Key{Trailer: base.MakeTrailer(op.seq, op.kind)}
			if op.kind != hDel {
				k.Suffix = hSuffixBytes(op.suffix)
			}
			if op.kind == hSet {
				k.Value = []byte{op.val}
			}
			frag.Add(keyspan.Span{Start: []byte{op.start}, End: []byte{op.end}, Keys: []keyspan.Key{k}})
		}
		frag.Finish()
		iters = append(iters, keyspan.NewIter(cmp, spans))
	}

	var lower, upper []byte
	lo, hi := byte(0), byte(255)
	if bounded {
		lo, hi = sym.U8("lower"), sym.U8("upper")
		sym.Assume(sym.And(sym.And(lo >= 'a', lo < hi), hi <= 'e'))
		lower, upper = []byte{lo}, []byte{hi}
	}
	var ui UserIteratorConfig
	it := ui.Init(base.DefaultComparer, snapshot, lower, upper, nil, nil, false, new(Buffers), iters...)

	type outSpan struct {
		start, end byte
		has        [hNSuffix]bool
		val        [hNSuffix]byte
	}
	var out []outSpan
	// as Iterator.iterFirstWithinBounds does: seek to the lower bound when there is one
	var sp *keyspan.Span
	var err error
	if lower != nil {
		sp, err = it.SeekGE(lower)
	} else {
		sp, err = it.First()
	}
	for ; sp != nil; sp, err = it.Next() {
		sym.Assert(len(out) < 8, "scan-terminates")
		if len(sp.Keys) == 0 {
			continue // spans without visible keys are not surfaced to the user
		}
		o := outSpan{start: sp.Start[0], end: sp.End[0]}
		for _, k := range sp.Keys {
			sym.Assert(k.Kind() == hSet, "only-sets-surface")
			slot := 0
			if len(k.Suffix) > 0 {
				slot = int(k.Suffix[0])
			}
			sym.Assert(!o.has[slot], "one-key-per-suffix")
			o.has[slot] = true
			sym.Assert(len(k.Value) == 1, "value-length")
			o.val[slot] = k.Value[0]
		}
		out = append(out, o)
	}
	sym.Assert(err == nil, "no-error")
	for i := range out {
		sym.Assert(out[i].start < out[i].end, "non-empty-span")
		// this stack only surfaces spans that overlap the bounds; clipping the reported bounds to
		// them is done by Iterator.saveRangeKey (outside this harness)
		sym.Assert(sym.And(out[i].end > lo, out[i].start < hi), "overlaps-bounds")
		if i > 0 {
			sym.Assert(out[i-1].end <= out[i].start, "sorted-non-overlapping")
			// maximality: abutting spans differ in their (suffix, value) sets
			same := true
			for s := 0; s < hNSuffix; s++ {
				a, b := out[i-1], out[i]
				same = sym.And(same, a.has[s] == b.has[s])
				if a.has[s] && b.has[s] {
					same = sym.And(same, a.val[s] == b.val[s])
				}
			}
			sym.Assert(!sym.And(out[i-1].end == out[i].start, same), "spans-are-maximal")
		}
	}

	// the model at an arbitrary probe key
	p := sym.U8("probe")
	var mHas [hNSuffix]bool
	var mVal [hNSuffix]byte
	for _, op := range h {
		applies := sym.And(op.seq < snapshot, sym.And(op.start <= p, p < op.end))
		for s := 0; s < hNSuffix; s++ {
			switch {
			case op.kind == hSet && op.suffix == s:
				mHas[s] = sym.Ite(applies, true, mHas[s])
				mVal[s] = sym.Ite(applies, op.val, mVal[s])
			case op.kind == hUnset && op.suffix == s, op.kind == hDel:
				mHas[s] = sym.Ite(applies, false, mHas[s])
			}
		}
	}
	inBounds := sym.And(p >= lo, p < hi)
	for s := 0; s < hNSuffix; s++ {
		got, gotVal := false, byte(0)
		for _, o := range out {
			covers := sym.And(o.start <= p, p < o.end)
			if o.has[s] {
				got = sym.Or(got, covers)
				gotVal = sym.Ite(covers, o.val[s], gotVal)
			}
		}
		sym.Assert(sym.Implies(inBounds, got == mHas[s]), "reported-iff-model-has-it")
		sym.Assert(sym.Implies(sym.And(inBounds, mHas[s]), gotVal == mVal[s]), "reported-value")
	}
	sym.Reach("range-keys")
}

func VerifHarness_C08_OneLevel() { hRangeKeys(2, 1, false) }

func VerifHarness_C08_OneLevel3_Thorough() { hRangeKeys(3, 1, false) }

func VerifHarness_C08_TwoLevels() { hRangeKeys(2, 2, true) }

// not finished within 7 minutes on 16 cores: kept for development (-tier deep), not registered
func VerifHarness_C08_TwoLevels3_Deep() { hRangeKeys(3, 2, false) }

// four range-key writes in one level did not finish within 30 minutes
