package verifsym

import "bytes"

// Comparer mirrors the function fields of base.Comparer that the contract
// checks need (kept free of pebble imports so that internal/base can use it).
type Comparer struct {
	Compare              func(a, b []byte) int
	Equal                func(a, b []byte) bool
	Split                func(k []byte) int
	ComparePointSuffixes func(a, b []byte) int
	CompareRangeSuffixes func(a, b []byte) int
	Separator            func(dst, a, b []byte) []byte
	Successor            func(dst, a []byte) []byte
	ImmediateSuccessor   func(dst, a []byte) []byte
	AbbreviatedKey       func(k []byte) uint64
	// SameSuffixClass, if set, restricts the "range-suffix order refines the
	// point-suffix order" clause to suffix pairs for which it returns true.
	SameSuffixClass func(as, bs []byte) bool
}

func sgn(x int) int {
	if x < 0 {
		return -1
	}
	if x > 0 {
		return 1
	}
	return 0
}

// CheckPair asserts the two-key clauses of the Comparer contract for valid keys a, b.
func CheckPair(c *Comparer, a, b []byte) {
	ab := c.Compare(a, b)
	ba := c.Compare(b, a)
	Assert(ab >= -1 && ab <= 1, "compare-returns-sign")
	Assert(ab == -ba, "antisymmetric")
	Assert((ab == 0) == c.Equal(a, b), "equal-iff-compare-zero")
	Assert(c.Compare(a, a) == 0, "reflexive")
	// documented decomposition: prefix bytes first, then point suffixes
	an, bn := c.Split(a), c.Split(b)
	Assert(an >= 0 && an <= len(a), "split-in-range")
	Assert(c.Split(a[:an]) == an, "split-idempotent-on-prefix")
	if pc := bytes.Compare(a[:an], b[:bn]); pc != 0 {
		Assert(ab == pc, "prefix-order-decides")
	} else {
		sc := c.ComparePointSuffixes(a[an:], b[bn:])
		Assert(ab == sc, "suffix-order-breaks-ties")
		if sc != 0 && (c.SameSuffixClass == nil || c.SameSuffixClass(a[an:], b[bn:])) {
			Assert(sgn(c.CompareRangeSuffixes(a[an:], b[bn:])) == sc, "range-suffix-order-refines-point-order")
		}
	}
	// AbbreviatedKey is order-preserving
	ka, kb := c.AbbreviatedKey(a), c.AbbreviatedKey(b)
	if ka < kb {
		Assert(ab < 0, "abbreviated-key-less-implies-less")
	}
	if ka > kb {
		Assert(ab > 0, "abbreviated-key-greater-implies-greater")
	}
	Reach("pair")
}

// CheckSeparator asserts a <= Separator(a,b) < b for a < b, and a <= Successor(a).
func CheckSeparator(c *Comparer, a, b []byte) {
	if c.Compare(a, b) < 0 {
		s := c.Separator(nil, a, b)
		Assert(c.Compare(a, s) <= 0, "separator-not-below-a")
		Assert(c.Compare(s, b) < 0, "separator-below-b")
		Reach("separator")
	}
	s := c.Successor(nil, a)
	Assert(c.Compare(a, s) <= 0, "successor-not-below-a")
	Reach("successor")
}

// CheckTransitive asserts transitivity on three valid keys.
func CheckTransitive(c *Comparer, x, y, z []byte) {
	if c.Compare(x, y) <= 0 && c.Compare(y, z) <= 0 {
		Assert(c.Compare(x, z) <= 0, "transitive")
		if c.Compare(x, y) < 0 || c.Compare(y, z) < 0 {
			Assert(c.Compare(x, z) < 0, "transitive-strict")
		}
		Reach("transitive")
	}
}

// CheckImmediateSuccessor: p is a prefix key (Split(p) == len(p)); the result
// is the smallest prefix key greater than p (k is any other prefix key).
func CheckImmediateSuccessor(c *Comparer, p, k []byte) {
	is := c.ImmediateSuccessor(nil, p)
	Assert(c.Split(is) == len(is), "immediate-successor-is-a-prefix")
	Assert(c.Compare(p, is) < 0, "immediate-successor-greater")
	if c.Compare(p, k) < 0 {
		Assert(c.Compare(is, k) <= 0, "nothing-between-prefix-and-immediate-successor")
	}
	Reach("immsucc")
}
