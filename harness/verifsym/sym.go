// Package verifsym: the nondeterministic-input intrinsics used by the /verif
// harnesses. Under the symbolic engine (gosym) every function here is
// intercepted and its body ignored. This native implementation is what the
// replay uses: values come from an assignment produced by the solver (or, for
// smoke runs, from a seeded PRNG).
package verifsym

import (
	"encoding/json"
	"fmt"
	"math/rand/v2"
	"os"
	"runtime/debug"
	"strings"
	"sync"
)

type Case struct {
	Harness  string            `json:"harness"`
	Kind     string            `json:"kind"` // violation | witness
	Tag      string            `json:"tag"`
	Assign   map[string]uint64 `json:"assign"`
	Blocks   map[string][]byte `json:"blocks"`
	Observes []string          `json:"observes"`
}

var (
	cur      *Case
	counts   map[string]int
	rng      *rand.Rand
	observes []string
	reached  []string
	tier     = "quick"
)

func fresh(name string) string {
	k := counts[name]
	counts[name] = k + 1
	return fmt.Sprintf("%s#%d", name, k)
}

func val(name string, bits uint) uint64 {
	n := fresh(name)
	if cur != nil {
		return cur.Assign[n]
	}
	return rng.Uint64() >> (64 - bits)
}

func U8(name string) uint8   { return uint8(val(name, 8)) }
func U16(name string) uint16 { return uint16(val(name, 16)) }
func U32(name string) uint32 { return uint32(val(name, 32)) }
func U64(name string) uint64 { return val(name, 64) }
func Int(name string) int    { return int(val(name, 64)) }
func Bool(name string) bool  { return val(name, 8)&1 == 1 }

func Bytes(name string, maxLen int) []byte {
	n := fresh(name)
	var l int
	if cur != nil {
		l = int(cur.Assign[n+".len"])
	} else {
		l = rng.IntN(maxLen + 1)
	}
	if l > maxLen {
		panic(assumeFailed{})
	}
	b := make([]byte, l)
	for i := range b {
		if cur != nil {
			b[i] = byte(cur.Assign[fmt.Sprintf("%s[%d]", n, i)])
		} else {
			b[i] = byte(rng.Uint32())
		}
	}
	return b
}

func BytesN(name string, n int) []byte {
	nm := fresh(name)
	b := make([]byte, n)
	for i := range b {
		if cur != nil {
			b[i] = byte(cur.Assign[fmt.Sprintf("%s[%d]", nm, i)])
		} else {
			b[i] = byte(rng.Uint32())
		}
	}
	return b
}

func Block(name string, n int) []byte {
	nm := fresh(name)
	b := make([]byte, n)
	if cur != nil {
		copy(b, cur.Blocks[nm])
	} else {
		for i := range b {
			b[i] = byte(rng.Uint32())
		}
	}
	return b
}

func Choose(name string, k int) int {
	n := fresh(name)
	if cur != nil {
		v := int(cur.Assign[n])
		if v < 0 || v >= k {
			panic(assumeFailed{})
		}
		return v
	}
	return rng.IntN(k)
}

func Range(name string, lo, hi int) int {
	n := fresh(name)
	if cur != nil {
		v := int(cur.Assign[n])
		if v < lo || v > hi {
			panic(assumeFailed{})
		}
		return v
	}
	return lo + rng.IntN(hi-lo+1)
}

type assumeFailed struct{}
type assertFailed struct{ tag string }

func Assume(c bool) {
	if !c {
		panic(assumeFailed{})
	}
}

func Assert(c bool, tag string) {
	if !c {
		panic(assertFailed{tag})
	}
}

func NoPanic(tag string, f func()) {
	defer func() {
		if r := recover(); r != nil {
			switch r.(type) {
			case assumeFailed, assertFailed:
				panic(r)
			}
			panic(assertFailed{fmt.Sprintf("nopanic:%s (%v)", tag, r)})
		}
	}()
	f()
}

func Panics(f func()) (p bool) {
	defer func() {
		if r := recover(); r != nil {
			switch r.(type) {
			case assumeFailed, assertFailed:
				panic(r)
			}
			p = true
		}
	}()
	f()
	return false
}

func Reach(tag string) {
	for _, t := range reached {
		if t == tag {
			return
		}
	}
	reached = append(reached, tag)
}

func Observe(tag string, v ...any) {
	var parts []string
	for _, x := range v {
		switch x := x.(type) {
		case bool:
			if x {
				parts = append(parts, "1")
			} else {
				parts = append(parts, "0")
			}
		case []byte:
			parts = append(parts, fmt.Sprint(len(x)))
			for _, b := range x {
				parts = append(parts, fmt.Sprint(b))
			}
		case string:
			parts = append(parts, fmt.Sprint(len(x)))
			for _, b := range []byte(x) {
				parts = append(parts, fmt.Sprint(b))
			}
		case int, int8, int16, int32, int64:
			parts = append(parts, fmt.Sprint(uint64(toI64(x))))
		default:
			parts = append(parts, fmt.Sprint(x))
		}
	}
	observes = append(observes, tag+"="+strings.Join(parts, ","))
}

func toI64(x any) int64 {
	switch x := x.(type) {
	case int:
		return int64(x)
	case int8:
		return int64(x)
	case int16:
		return int64(x)
	case int32:
		return int64(x)
	case int64:
		return x
	}
	return 0
}

func CopyBound(k int)          {}
func ConcBound(k int)          {}
func CrcBound(k int)           {}
func MaxPreempt(k int)         {}
func FixRandom()               {}
func Unwind(k int)             {}
func MaxPaths(k int)           {}
func Tier() string             { return tier }
func Thorough() bool           { return tier == "thorough" }
func Symbolic() bool           { return false }
func Concrete(x int) int       { return x }
func And(a, b bool) bool       { return a && b }
func Or(a, b bool) bool        { return a || b }
func Implies(a, b bool) bool   { return !a || b }
func BytesEq(a, b []byte) bool { return string(a) == string(b) }
func Yield()                   {}

var atomicMu sync.Mutex

// Atomic runs f as one indivisible step of a concurrent harness (engine: one scheduling point,
// no preemption inside; natively: under a global lock).
func Atomic(f func()) { atomicMu.Lock(); defer atomicMu.Unlock(); f() }
func Ite[T any](c bool, a, b T) T {
	if c {
		return a
	}
	return b
}

// runOne executes one harness and classifies the outcome.
func runOne(f func()) (outcome string) {
	defer func() {
		if r := recover(); r != nil {
			switch r := r.(type) {
			case assumeFailed:
				outcome = "assume-failed"
			case assertFailed:
				outcome = "assert-failed tag=" + r.tag
			default:
				outcome = fmt.Sprintf("panic %v", r)
				if os.Getenv("VERIF_REPLAY_STACK") != "" {
					outcome += "\n" + string(debug.Stack())
				}
			}
		}
	}()
	f()
	return "completed"
}

// OnCase registers f to run before every natively replayed case: harness packages reset their
// package-level knobs there (the engine starts every path from freshly initialised globals, a
// native test binary runs all cases in one process).
func OnCase(f func()) { caseHooks = append(caseHooks, f) }

var caseHooks []func()

// ReplayMain runs every case in the file named by VERIF_REPLAY and prints one
// line per case.
func ReplayMain(harnesses map[string]func()) {
	path := os.Getenv("VERIF_REPLAY")
	if t := os.Getenv("VERIF_TIER"); t != "" {
		tier = t
	}
	data, err := os.ReadFile(path)
	if err != nil {
		fmt.Printf("VERIF-REPLAY-ERROR cannot read %q: %v\n", path, err)
		return
	}
	var cases []*Case
	if err := json.Unmarshal(data, &cases); err != nil {
		fmt.Printf("VERIF-REPLAY-ERROR bad json: %v\n", err)
		return
	}
	for i, c := range cases {
		f := harnesses[c.Harness]
		if f == nil {
			fmt.Printf("VERIF-REPLAY case=%d harness=%s outcome=unknown-harness\n", i, c.Harness)
			continue
		}
		runs := 1
		if strings.Contains(c.Harness, "_Conc") && c.Kind == "violation" {
			// a concurrent harness: the native scheduler picks the interleaving, so stress it
			fmt.Sscanf(os.Getenv("VERIF_REPLAY_CONC_RUNS"), "%d", &runs)
			if runs < 1 {
				runs = 1
			}
		}
		out := ""
		for r := 0; r < runs; r++ {
			cur, counts, observes, reached = c, map[string]int{}, nil, nil
			for _, h := range caseHooks {
				h()
			}
			out = runOne(f)
			if out != "completed" {
				break
			}
		}
		fmt.Printf("VERIF-REPLAY case=%d harness=%s outcome=%s reached=%s observes=%s\n", i, c.Harness, out,
			strings.Join(reached, ";"), strings.Join(observes, ";"))
	}
	cur = nil
}

// Smoke runs a harness natively n times on seeded random inputs and returns how
// many runs passed the assumptions; an assertion failure panics.
func Smoke(f func(), seed uint64, n int) (passed int) {
	rng = rand.New(rand.NewPCG(seed, 99))
	for i := 0; i < n; i++ {
		cur, counts, observes, reached = nil, map[string]int{}, nil, nil
		out := runOne(f)
		switch {
		case out == "completed":
			passed++
		case out == "assume-failed":
		default:
			panic(fmt.Sprintf("smoke run %d: %s", i, out))
		}
	}
	return passed
}

// LoopBound (engine only): inside functions whose name contains fnSubstr, a
// path is cut at the (k+1)-th back edge to one loop header after running
// onCut. Natively a no-op: the loop simply runs.
func LoopBound(fnSubstr string, k int, onCut func()) {}
