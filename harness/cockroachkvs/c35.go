package cockroachkvs

import sym "github.com/cockroachdb/pebble/internal/verifsym"

func hCmp() *sym.Comparer {
	c := &Comparer
	return &sym.Comparer{
		Compare: c.Compare, Equal: c.Equal, Split: c.Split,
		ComparePointSuffixes: c.ComparePointSuffixes, CompareRangeSuffixes: c.CompareRangeSuffixes,
		Separator: c.Separator, Successor: c.Successor, ImmediateSuccessor: c.ImmediateSuccessor,
		AbbreviatedKey: c.AbbreviatedKey,
		// C35 does not list CompareRangeSuffixes; the repo's own CheckComparer ties it to
		// ComparePointSuffixes, which holds among MVCC timestamps and among lock-table
		// versions but not across the two classes (recorded in DESIGN.md as an observation).
		SameSuffixClass: func(as, bs []byte) bool {
			return (len(as) == suffixLenWithLockTable) == (len(bs) == suffixLenWithLockTable)
		},
	}
}

var hVersionLens = [...]int{
	engineKeyNoVersion, engineKeyVersionWallTimeLen, engineKeyVersionWallAndLogicalTimeLen,
	engineKeyVersionWallLogicalAndSyntheticTimeLen, engineKeyVersionLockTableLen,
}

// hKey builds a valid engine key: roach key (<= maxKey symbolic bytes), the
// 0x00 sentinel, and a version of one of the documented lengths.
func hKey(name string, maxKey int) []byte {
	rk := sym.BytesN(name+".key", sym.Choose(name+".keylen", maxKey+1))
	ver := sym.BytesN(name+".ver", hVersionLens[sym.Choose(name+".verlen", len(hVersionLens))])
	k := EncodeKey(nil, rk, ver)
	sym.Assert(validateEngineKey(k) == nil, "generated-key-is-valid")
	return k
}

func hMaxKey() int {
	if sym.Thorough() {
		return 3
	}
	return 2
}

func VerifHarness_C35_CockroachPair() {
	a, b := hKey("a", hMaxKey()), hKey("b", hMaxKey())
	sym.CheckPair(hCmp(), a, b)
}

func VerifHarness_C35_CockroachSeparator() {
	a, b := hKey("a", hMaxKey()), hKey("b", hMaxKey())
	sym.CheckSeparator(hCmp(), a, b)
}

func VerifHarness_C35_CockroachTransitive() {
	n := 1
	if sym.Thorough() {
		n = 2
	}
	sym.CheckTransitive(hCmp(), hKey("x", n), hKey("y", n), hKey("z", n))
}

func VerifHarness_C35_CockroachImmediateSuccessor() {
	// prefix keys: roach key + sentinel, no version
	p := EncodeKey(nil, sym.BytesN("p", sym.Choose("plen", hMaxKey()+1)), nil)
	k := EncodeKey(nil, sym.BytesN("k", sym.Choose("klen", hMaxKey()+2)), nil)
	sym.CheckImmediateSuccessor(hCmp(), p, k)
}
