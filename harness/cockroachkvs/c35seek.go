package cockroachkvs

import (
	"encoding/binary"

	sym "github.com/cockroachdb/pebble/internal/verifsym"
	"github.com/cockroachdb/pebble/sstable/colblk"
)

// hUintColumn serialises rows 64-bit values the way a colblk uint column of width 8 is laid
// out (encoding byte, padding to 8, little-endian words) and decodes it with the real decoder.
func hUintColumn(vals []uint64) colblk.UnsafeUints {
	b := make([]byte, 8+8*len(vals)+8)
	b[0] = 8 // UintEncoding: 8 bytes per value, no delta
	for i, v := range vals {
		binary.LittleEndian.PutUint64(b[8+8*i:], v)
	}
	u, _ := colblk.DecodeUnsafeUints(b, 0, uint32(len(vals)))
	return u
}

// hBitmap serialises a bitmap of n <= 64 bits (default encoding: one word, one summary word).
func hBitmap(word uint64, n int) colblk.Bitmap {
	b := make([]byte, 8+16+8)
	b[0] = 0 // defaultBitmapEncoding
	binary.LittleEndian.PutUint64(b[8:], word)
	if word != 0 {
		binary.LittleEndian.PutUint64(b[16:], 1)
	}
	bm, _ := colblk.DecodeBitmap(b, 0, uint32(n))
	return bm
}

// VerifHarness_C35_CockroachSeekGEOnSuffix: seeking inside a columnar data
// block agrees with the comparer. A block in which every key has an MVCC
// suffix holds 1..3 versions of one roach key (newest first) followed by
// another key; for a seek suffix in any of the three MVCC encodings (wall;
// wall+logical; wall+logical+synthetic bit) the key seeker's
// seekGEOnSuffix returns the first row whose key is >= the seek key under
// Comparer.Compare, and says whether that row still has the seek key's prefix.
func VerifHarness_C35_CockroachSeekGEOnSuffix() {
	p := 1 + sym.Choose("versions", 3) // rows [0,p) share the roach key; row p starts the next key
	rows := p + 1
	walls := make([]uint64, rows)
	logicals := make([]uint64, rows)
	keys := make([][]byte, p)
	roach := []byte("k")
	for i := 0; i < p; i++ {
		walls[i] = sym.U64("wall")
		logicals[i] = uint64(sym.U32("logical"))
		sym.Assume(walls[i] != 0 || logicals[i] != 0)
		ver := make([]byte, 12)
		binary.BigEndian.PutUint64(ver, walls[i])
		binary.BigEndian.PutUint32(ver[8:], uint32(logicals[i]))
		if logicals[i] == 0 {
			ver = ver[:8]
		}
		keys[i] = EncodeKey(nil, roach, ver)
		if i > 0 { // a block's keys are strictly increasing
			sym.Assume(Comparer.Compare(keys[i-1], keys[i]) < 0)
		}
	}
	var changed uint64 = 1 | 1<<uint(p)
	ks := &cockroachKeySeeker{
		roachKeyChanged: hBitmap(changed, rows),
		mvccWallTimes:   hUintColumn(walls),
		mvccLogical:     hUintColumn(logicals),
		suffixTypes:     hasMVCCSuffixes,
	}

	// the seek key: same roach key, an MVCC version in one of the three encodings
	sw, sl := sym.U64("seek-wall"), sym.U32("seek-logical")
	form := sym.Choose("seek-suffix-form", 3)
	ver := make([]byte, 13)
	binary.BigEndian.PutUint64(ver, sw)
	binary.BigEndian.PutUint32(ver[8:], sl)
	switch form {
	case 0:
		ver = ver[:8]
	case 1:
		ver = ver[:12]
	}
	seekKey := EncodeKey(nil, roach, ver)
	sym.Assert(validateEngineKey(seekKey) == nil, "seek-key-is-valid")
	seekSuffix := seekKey[Comparer.Split(seekKey):]

	row, equalPrefix := ks.seekGEOnSuffix(0, seekSuffix)
	sym.Assert(row >= 0 && row <= p, "row-in-range")
	sym.Assert(equalPrefix == (row < p), "equal-prefix-iff-row-has-the-prefix")
	for i := 0; i < p; i++ {
		ge := Comparer.Compare(keys[i], seekKey) >= 0
		// rows before the result are smaller than the seek key, the result row is not
		sym.Assert(sym.Implies(i < row, !ge), "rows-before-the-result-are-smaller")
		sym.Assert(sym.Implies(i == row, ge), "result-row-is-at-or-after-the-seek-key")
	}
	sym.Reach("sought")
}
