package testkeys

import sym "github.com/cockroachdb/pebble/internal/verifsym"

func hCmp() *sym.Comparer {
	c := Comparer
	return &sym.Comparer{
		Compare: c.Compare, Equal: c.Equal, Split: c.Split,
		ComparePointSuffixes: c.ComparePointSuffixes, CompareRangeSuffixes: c.CompareRangeSuffixes,
		Separator: c.Separator, Successor: c.Successor, ImmediateSuccessor: c.ImmediateSuccessor,
		AbbreviatedKey: c.AbbreviatedKey,
	}
}

// hPrefix: 1..max letters a-z (what the key generators produce: testkeys.Alpha
// never yields an empty prefix).
func hPrefix(name string, max int) []byte {
	p := sym.BytesN(name, 1+sym.Choose(name+".len", max))
	for _, ch := range p {
		sym.Assume(ch >= 'a' && ch <= 'z')
	}
	return p
}

// hKey: prefix, optionally "@" + 1..2 decimal digits, optionally "_synthetic".
func hKey(name string, maxPrefix int) []byte {
	k := hPrefix(name+".p", maxPrefix)
	nd := sym.Choose(name+".digits", 3)
	if nd == 0 {
		return k
	}
	k = append(k, '@')
	d := sym.BytesN(name+".d", nd)
	for _, ch := range d {
		sym.Assume(ch >= '0' && ch <= '9')
	}
	k = append(k, d...)
	if sym.Bool(name + ".synthetic") {
		k = append(k, ignoreTimestampSuffix...)
	}
	sym.Assert(Comparer.ValidateKey(k) == nil, "generated-key-is-valid")
	return k
}

func hMax() int {
	if sym.Thorough() {
		return 3
	}
	return 2
}

func VerifHarness_C35_TestkeysPair() {
	sym.CheckPair(hCmp(), hKey("a", hMax()), hKey("b", hMax()))
}

func VerifHarness_C35_TestkeysSeparator() {
	a, b := hKey("a", hMax()), hKey("b", hMax())
	sym.Assume(len(a) > 0 && len(b) > 0)
	sym.CheckSeparator(hCmp(), a, b)
}

func VerifHarness_C35_TestkeysTransitive() {
	n := 1
	if sym.Thorough() {
		n = 2
	}
	sym.CheckTransitive(hCmp(), hKey("x", n), hKey("y", n), hKey("z", n))
}

func VerifHarness_C35_TestkeysImmediateSuccessor() {
	sym.CheckImmediateSuccessor(hCmp(), hPrefix("p", hMax()), hPrefix("k", hMax()+1))
}
